(* ProofsPos.v — the seats and their positions never change during a hand: every operation
   keeps the number of players and who holds dealer / small blind / big blind. *)
From Coq Require Import Lia.
From PF Require Import Base ProofsBase Comb ModelPot ModelSettle ModelEval ModelGame ProofsGameBasic.

Definition p_pos (p : pstate) : bool * bool * bool := (p_dealer p, p_sb p, p_bb p).
Definition pv (g : gstate) : list (bool * bool * bool) := map p_pos (g_players g).

Lemma pv_nplayers g g' : pv g' = pv g -> nplayers g' = nplayers g.
Proof. unfold pv, nplayers. intros H. rewrite <- (map_length p_pos (g_players g')), H, map_length. reflexivity. Qed.

Lemma last_dealer_pos ps ps' i acc :
  map p_pos ps' = map p_pos ps -> last_dealer ps' i acc = last_dealer ps i acc.
Proof.
  revert ps' i acc; induction ps as [|p t IH]; intros [|p' t'] i acc H; simpl in *; try discriminate; [reflexivity|].
  unfold p_pos in H at 1 3. injection H as Hd _ _ Ht. rewrite Hd. apply IH. exact Ht.
Qed.

Lemma pv_dealer g g' : pv g' = pv g -> dealer_of g' = dealer_of g.
Proof. intros H. unfold dealer_of, dealer_opt. now rewrite (last_dealer_pos _ _ 0%nat None H). Qed.

Lemma pv_get_bb g g' i : pv g' = pv g -> p_bb (get_p g' i) = p_bb (get_p g i).
Proof.
  intros H. unfold get_p, pv in *.
  assert (E : p_pos (nth i (g_players g') dflt_p) = p_pos (nth i (g_players g) dflt_p)).
  { rewrite <- !(map_nth p_pos). now rewrite H. }
  unfold p_pos in E. congruence.
Qed.

Lemma pv_get_pos g g' i : pv g' = pv g -> p_pos (get_p g' i) = p_pos (get_p g i).
Proof. intros H. unfold get_p, pv in *. rewrite <- !(map_nth p_pos). now rewrite H. Qed.

Lemma pv_upd g i f : (forall p, p_pos (f p) = p_pos p) -> pv (upd_p g i f) = pv g.
Proof.
  intros Hf. unfold pv, upd_p. simpl. revert i. induction (g_players g) as [|x t IH]; intros [|i]; simpl; auto.
  - now rewrite Hf.
  - now rewrite IH.
Qed.

Lemma pv_map g f : (forall p, p_pos (f p) = p_pos p) -> pv (map_p g f) = pv g.
Proof. intros Hf. unfold pv, map_p. simpl. rewrite map_map. apply map_ext. exact Hf. Qed.

Lemma pv_with_st g s : pv (with_st g s) = pv g. Proof. reflexivity. Qed.
Lemma pv_set_event g e : pv (set_event g e) = pv g. Proof. reflexivity. Qed.
Lemma pv_set_last g a t v : pv (set_last g a t v) = pv g. Proof. reflexivity. Qed.
Lemma pv_update_pots g : pv (update_pots g) = pv g. Proof. reflexivity. Qed.
Lemma pv_reset_all g : pv (reset_all g) = pv g. Proof. apply pv_map. reflexivity. Qed.
Lemma pv_reset_acted g : pv (reset_acted g) = pv g. Proof. apply pv_map. reflexivity. Qed.
Lemma pv_reset_round_status g : pv (reset_round_status g) = pv g. Proof. reflexivity. Qed.

Lemma pv_reset_all_status g : pv (reset_all_status g) = pv g.
Proof.
  apply pv_map. intros p. unfold reset_player_status. destruct (p_fold p); [|destruct (p_stack p =? 0)]; reflexivity.
Qed.

Lemma pv_round_closed g : pv (round_closed g) = pv g.
Proof. unfold round_closed. now rewrite pv_update_pots, pv_reset_all, pv_set_event. Qed.

Lemma pv_set_current g i : pv (set_current g i) = pv g.
Proof. unfold set_current. rewrite pv_upd by reflexivity. rewrite pv_with_st. apply pv_upd. reflexivity. Qed.

Lemma pv_become_raiser g i : pv (become_raiser g i) = pv g.
Proof.
  unfold become_raiser. rewrite pv_upd by reflexivity. rewrite pv_reset_acted, pv_with_st.
  apply pv_upd. intros p. destruct (0 <? p_wager p); reflexivity.
Qed.

Lemma pv_pay g i chips w : pv (pay g i chips w) = pv g.
Proof.
  unfold pay. destruct (p_stack (get_p g i) <=? chips).
  - destruct w.
    + match goal with |- context [if ?c then become_raiser ?g3 i else reset_acted ?g3] =>
        transitivity (pv g3); [destruct c; [apply pv_become_raiser|apply pv_reset_acted]|] end.
      match goal with |- context [if ?c then with_st _ _ else _] => destruct c end;
        rewrite ?pv_with_st; rewrite pv_upd by reflexivity; reflexivity.
    + rewrite pv_upd by reflexivity. reflexivity.
  - destruct (w && _).
    + rewrite pv_become_raiser, !pv_with_st. apply pv_upd. reflexivity.
    + rewrite pv_with_st. apply pv_upd. reflexivity.
Qed.

Lemma pv_request_action g : pv (request_action g) = pv g.
Proof.
  unfold request_action.
  destruct (Nat.eqb (alive_count g) 1); [apply pv_round_closed|].
  destruct (Nat.eqb (movable_count g) 0); [apply pv_round_closed|].
  destruct (p_acted _); [apply pv_round_closed|apply pv_set_current].
Qed.

Lemma pv_resume g : pv (resume g) = pv g.
Proof. unfold resume. destruct (st_event (g_st g)); try reflexivity; [apply pv_request_action|apply pv_round_closed]. Qed.

Lemma pv_update_combs g : pv (update_combs g) = pv g.
Proof.
  apply pv_map. intros p. unfold update_comb. destruct (p_comb p); [|reflexivity]. destruct (best_power _ _ _ _); reflexivity.
Qed.

Lemma pv_request_ready g : pv (request_ready g) = pv g.
Proof. unfold request_ready. now rewrite pv_set_event, pv_reset_all. Qed.

Lemma pv_prepare_round g : pv (prepare_round g) = pv g.
Proof.
  unfold prepare_round. destruct (st_round (g_st g)); try apply pv_request_ready;
    destruct (Nat.leb (movable_count g) 1); try apply pv_round_closed; apply pv_request_ready.
Qed.

Lemma pv_find_bb_loop n g : pv (find_bb_loop n g) = pv g.
Proof.
  revert g; induction n as [|n IH]; intros g; simpl; [reflexivity|].
  destruct (p_bb _); [apply pv_set_current|]. rewrite IH. apply pv_set_current.
Qed.

Lemma pv_start_round g : pv (start_round g) = pv g.
Proof.
  unfold start_round. destruct (st_round (g_st (reset_all g))).
  all: try (rewrite pv_request_action, pv_set_event, pv_set_current; apply pv_reset_all).
  destruct (Nat.eqb (movable_count (reset_all g)) 0).
  - rewrite pv_round_closed. apply pv_reset_all.
  - rewrite pv_request_action, pv_set_event, pv_find_bb_loop, pv_set_current. apply pv_reset_all.
Qed.

Lemma map_pos_deal_holes ps deck h : map p_pos (deal_holes ps deck h) = map p_pos ps.
Proof. revert deck; induction ps as [|p t IH]; intros deck; simpl; [reflexivity|]. now rewrite IH. Qed.

Lemma pv_enter_preflop g : pv (fst (enter_preflop g)) = pv g.
Proof.
  unfold enter_preflop. destruct (negb (deck_has g _)); [reflexivity|].
  match goal with |- context [if ?c then _ else _] => destruct c end; cbn [fst].
  - rewrite pv_prepare_round, pv_update_combs. unfold pv. simpl. apply map_pos_deal_holes.
  - rewrite pv_set_event, pv_update_combs. unfold pv. simpl. apply map_pos_deal_holes.
Qed.

Lemma pv_enter_street g r : pv (fst (enter_street g r)) = pv g.
Proof.
  unfold enter_street. destruct (negb (deck_has g _)); [reflexivity|]. cbn [fst].
  now rewrite pv_prepare_round, pv_update_combs, pv_set_current.
Qed.

Lemma pv_game_completed g : pv (fst (game_completed g)) = pv g.
Proof. unfold game_completed. destruct (settle_panics _ _); reflexivity. Qed.

Lemma pv_ante_loop order : forall g, pv (fst (ante_loop order g)) = pv g.
Proof.
  induction order as [|i t IH]; intros g; simpl; [reflexivity|].
  destruct (0 <? p_wager (get_p g i)); [reflexivity|]. rewrite IH, pv_set_last. apply pv_pay.
Qed.

Lemma pv_fold_pay_blind order : forall g, pv (fold_left pay_blind order g) = pv g.
Proof.
  induction order as [|i t IH]; intros g; simpl; [reflexivity|]. rewrite IH. unfold pay_blind.
  destruct (blind_of _ _). rewrite pv_set_last. apply pv_pay.
Qed.

Theorem pv_step g o : pv (fst (step g o)) = pv g.
Proof.
  destruct o as [| | | |who a x]; simpl.
  - unfold do_ready. destruct (negb _); [reflexivity|].
    destruct (st_round (g_st (reset_all g))).
    + destruct (0 <? _); cbn [fst]; [rewrite pv_set_event; apply pv_reset_all|rewrite pv_enter_preflop; apply pv_reset_all].
    + cbn [fst]. rewrite pv_start_round. apply pv_reset_all.
    + cbn [fst]. rewrite pv_start_round. apply pv_reset_all.
    + cbn [fst]. rewrite pv_start_round. apply pv_reset_all.
    + cbn [fst]. rewrite pv_start_round. apply pv_reset_all.
  - unfold do_pay_ante. destruct (_ =? 0); [reflexivity|]. destruct (negb _); [reflexivity|].
    pose proof (pv_ante_loop (player_order g) g) as H. destruct (ante_loop (player_order g) g) as [g1 b]. cbn [fst] in *.
    destruct b; cbn [fst]; [|exact H].
    rewrite pv_enter_preflop, pv_reset_round_status, pv_reset_all_status, pv_update_pots, pv_reset_all. exact H.
  - unfold do_pay_blinds. destruct (negb _); [reflexivity|]. cbn [fst].
    rewrite pv_prepare_round, pv_reset_all, pv_with_st. apply pv_fold_pay_blind.
  - unfold do_next. destruct (negb _); [reflexivity|].
    set (g0 := set_last g (-1) LNext 0). set (g1 := reset_all_status (reset_round_status g0)).
    assert (H1 : pv g1 = pv g) by (unfold g1, g0; rewrite pv_reset_all_status, pv_reset_round_status; apply pv_set_last).
    destruct (st_round (g_st g0)); [reflexivity| | | |].
    all: destruct (Nat.eqb (alive_count g1) 1).
    all: try (pose proof (pv_game_completed g1) as H; destruct (game_completed g1) as [g2 o2]; cbn [fst] in *;
              destruct o2; cbn [fst]; try reflexivity; rewrite H; exact H1).
    all: match goal with |- context [enter_street ?gg ?r] =>
           pose proof (pv_enter_street gg r) as H; destruct (enter_street gg r) as [g2 o2]; cbn [fst] in *;
           destruct o2; cbn [fst]; try reflexivity; rewrite H; exact H1 end.
  - set (i := match who with Some i => i | None => st_cur (g_st g) end).
    destruct (negb (Nat.ltb i (nplayers g))); [reflexivity|].
    assert (Hcall : pv (fst (act_call g i)) = pv g).
    { unfold act_call. destruct (negb _); [reflexivity|]. cbn [fst].
      rewrite pv_resume, pv_set_last, pv_pay. apply pv_upd. reflexivity. }
    assert (Hallin : pv (fst (act_allin g i)) = pv g).
    { unfold act_allin. destruct (negb _); [reflexivity|]. cbn [fst].
      rewrite pv_resume, pv_set_last, pv_pay.
      match goal with |- context [if ?c then _ else _] => destruct c end; rewrite ?pv_with_st; apply pv_upd; reflexivity. }
    destruct a.
    + unfold act_pass. destruct (negb _); [reflexivity|]. cbn [fst]. rewrite pv_resume, pv_set_last. apply pv_upd. reflexivity.
    + unfold act_fold. destruct (negb _); [reflexivity|]. cbn [fst]. rewrite pv_resume, pv_set_last. apply pv_upd. reflexivity.
    + unfold act_check. destruct (negb _); [reflexivity|]. cbn [fst]. rewrite pv_resume, pv_set_last. apply pv_upd. reflexivity.
    + exact Hcall.
    + exact Hallin.
    + unfold act_bet. destruct (negb _); [reflexivity|]. destruct (x <=? 0); [reflexivity|].
      destruct (_ <=? x); [exact Hallin|]. cbn [fst].
      rewrite pv_resume, pv_set_last, pv_with_st, pv_pay. apply pv_upd. reflexivity.
    + unfold act_raise. destruct (negb _); [reflexivity|]. destruct (_ || _); [reflexivity|].
      destruct (x =? _); [exact Hcall|]. destruct (_ || _); [exact Hallin|]. cbn [fst].
      rewrite pv_resume, pv_set_last, pv_pay, pv_with_st. apply pv_upd. reflexivity.
    + unfold act_pay. destruct (negb _); [reflexivity|]. cbn [fst]. rewrite pv_resume, pv_set_last. apply pv_pay.
Qed.

Theorem pv_run ops : forall g, pv (run g ops) = pv g.
Proof. unfold run. induction ops as [|o t IH]; intros g; simpl; [reflexivity|]. rewrite IH. apply pv_step. Qed.

Lemma last_dealer_lt ps : forall i acc j,
  last_dealer ps i acc = Some j -> (acc = Some j \/ (i <= j < i + length ps)%nat).
Proof.
  induction ps as [|p t IH]; intros i acc j H; simpl in *; [now left|].
  apply IH in H. destruct H as [H|H]; [|right; lia].
  destruct (p_dealer p); [injection H as <-; right; lia|now left].
Qed.

Lemma dealer_of_lt g : (0 < nplayers g)%nat -> (dealer_of g < nplayers g)%nat.
Proof.
  intros Hn. unfold dealer_of, dealer_opt.
  destruct (last_dealer (g_players g) 0 None) as [j|] eqn:E; simpl; [|exact Hn].
  apply last_dealer_lt in E as [E|E]; [discriminate|]. unfold nplayers. lia.
Qed.
