#!/usr/bin/env python3
"""writes MANIFEST.json from tools/manifest_data.py (kept in one place so it stays valid)"""
import json, os, sys
sys.path.insert(0, os.path.dirname(os.path.abspath(__file__)))
from manifest_data import CHECKS, NOT_APPLICABLE, NOTES
root = os.path.dirname(os.path.dirname(os.path.abspath(__file__)))
m = {
    "version": 1,
    "setup_cmd": "./setup.sh",
    "hooks": {
        "guard": "verif",
        "enable": "go build -tags verif (the harness module replaces github.com/weedbox/pokerface by /repo)",
        "baseline_off_cmd": "cd /repo && GOFLAGS=-mod=mod go test -json -vet=off -count=1 -timeout 25m ./...",
        "source_commits": [],
        "add_only": True,
    },
    "engines": [
        {"name": "coq", "path": "coq", "serves_properties": [c["property_id"] for c in CHECKS],
         "kind_free_text": "Coq 8.16.1 development: executable Gallina models, proofs, one Properties/Cxx.v per property"},
        {"name": "correspondence", "path": "harness", "serves_properties": [c["property_id"] for c in CHECKS],
         "kind_free_text": "Go harness (implementation side, oracles) + extracted OCaml runner (model side) compared per projection"},
    ],
    "checks": CHECKS,
    "not_applicable": NOT_APPLICABLE,
    "notes": NOTES,
}
hooks_file = os.path.join(root, "MANIFEST.hooks")
if os.path.exists(hooks_file):
    m["hooks"]["source_commits"] = [l.split()[0] for l in open(hooks_file) if l.strip() and not l.startswith("#")]
json.dump(m, open(os.path.join(root, "MANIFEST.json"), "w"), indent=1)
print("MANIFEST.json:", len(CHECKS), "checks")
