(* ProofsLap.v — a betting round closes exactly when it should (C05): the seats that have acted since the
   wager to match last went up (or since the last all-in) form a chain that ends at the seat to act, each of
   them has matched the wager or is out of the betting; the round closes when the chain has gone round. *)
From Coq Require Import Lia.
From PF Require Import Base ProofsBase Comb ModelPot ModelSettle ModelEval ModelGame
                       ProofsGameBasic ProofsChips ProofsInv ProofsPos ProofsOffers ProofsFirst ProofsView ProofsCards
                       ProofsBlinds ProofsPot ProofsSettle ProofsResult ProofsPhase.

(* ---------- the acted flags ---------- *)
Definition actedf (g : gstate) (j : nat) : bool := p_acted (get_p g j).
Definition foldf (g : gstate) (j : nat) : bool := p_fold (get_p g j).

Lemma actedf_overflow g j : (nplayers g <= j)%nat -> actedf g j = false.
Proof. intros H. unfold actedf. rewrite get_p_overflow by exact H. reflexivity. Qed.

Lemma actedf_with_st g s j : actedf (with_st g s) j = actedf g j. Proof. reflexivity. Qed.
Lemma foldf_with_st g s j : foldf (with_st g s) j = foldf g j. Proof. reflexivity. Qed.

Lemma actedf_upd g i f j : (i < nplayers g)%nat ->
  actedf (upd_p g i f) j = if Nat.eqb j i then p_acted (f (get_p g i)) else actedf g j.
Proof.
  intros Hi. unfold actedf. destruct (Nat.eqb j i) eqn:E.
  - apply Nat.eqb_eq in E. subst j. rewrite get_p_upd_same by exact Hi. reflexivity.
  - apply Nat.eqb_neq in E. rewrite get_p_upd_other by (intros H; apply E; symmetry; exact H). reflexivity.
Qed.

Lemma actedf_reset_acted g j : actedf (reset_acted g) j = false.
Proof.
  destruct (Nat.lt_ge_cases j (nplayers g)) as [H|H].
  - unfold actedf, reset_acted. rewrite get_p_map by exact H. reflexivity.
  - apply actedf_overflow. rewrite nplayers_reset_acted. exact H.
Qed.

Lemma actedf_become_raiser g i j : (i < nplayers g)%nat -> actedf (become_raiser g i) j = Nat.eqb j i.
Proof.
  intros Hi. unfold become_raiser.
  rewrite actedf_upd by (rewrite nplayers_reset_acted, nplayers_with_st, nplayers_upd; exact Hi).
  destruct (Nat.eqb j i); [reflexivity|apply actedf_reset_acted].
Qed.

Lemma foldf_neutral g g' j : gv p_fold g' = gv p_fold g -> foldf g' j = foldf g j.
Proof.
  intros H. unfold foldf, get_p. unfold gv in H. change false with (p_fold dflt_p). rewrite <- !(map_nth p_fold). now rewrite H.
Qed.

Lemma foldf_pay g i chips w j : foldf (pay g i chips w) j = foldf g j.
Proof. apply foldf_neutral. apply gv_pay; reflexivity. Qed.

(* ---------- what a wager payment does to the flags ---------- *)
(* matched: the seat has put in the wager to match, or is out of the betting *)
Definition matched (g : gstate) (j : nat) : Prop :=
  foldf g j = true \/ p_stack (get_p g j) = 0 \/ p_wager (get_p g j) = st_cw (g_st g).

Inductive pay_shape (b g' : gstate) (c : nat) : Prop :=
| PayQuiet : (forall j, actedf g' j = actedf b j) -> st_cw (g_st g') = st_cw (g_st b) ->
             p_wager (get_p g' c) <= st_cw (g_st b) -> pay_shape b g' c      (* no increase: flags kept *)
| PayRaise : (forall j, actedf g' j = Nat.eqb j c) -> matched g' c -> pay_shape b g' c   (* the payer is the new raiser *)
| PayReset : (forall j, actedf g' j = false) -> pay_shape b g' c.            (* short all-in: everybody is asked again *)

Lemma pay_shapes b c chips :
  (c < nplayers b)%nat -> seat_ok (get_p b c) -> 0 <= st_prs (g_st b) -> 0 <= chips ->
  let g' := pay b c chips true in
  pay_shape b g' c /\ p_wager (get_p g' c) = p_wager (get_p b c) + Z.min chips (p_stack (get_p b c)).
Proof.
  intros Hc (B1 & B2 & B3 & B4 & B5) Hprs Hch g'.
  pose proof (pay_chips b c chips true Hc) as Hpc. fold g' in Hpc. cbv zeta in Hpc.
  pose proof (pay_view b c chips true Hc) as (_ & _ & _ & _ & Hcw). fold g' in Hcw.
  split.
  2: { unfold chips_of in Hpc. destruct (p_stack (get_p b c) <=? chips) eqn:E; injection Hpc as _ _ _ _ Hw; rewrite Hw;
       [apply Z.leb_le in E|apply Z.leb_gt in E]; lia. }
  unfold g', pay in *. destruct (p_stack (get_p b c) <=? chips) eqn:E.
  - (* all-in *)
    set (g1 := with_st b (st_add_rpot (g_st b) (m_limit_pot (g_meta b)) (p_initial (get_p b c) - p_wager (get_p b c)))) in *.
    set (g2 := upd_p g1 c (fun p => p_set_chips (p_set_did p DAllin) (p_initial p) 0 (p_pot p) (p_initial p))) in *.
    assert (Hn2 : nplayers g2 = nplayers b) by (unfold g2, g1; rewrite nplayers_upd; apply nplayers_with_st).
    match goal with |- pay_shape b (if ?cond then become_raiser ?g3 c else reset_acted ?g3) c => set (x3 := g3) in *; destruct cond eqn:Ec end.
    + apply PayRaise.
      * intros j. apply actedf_become_raiser. unfold x3. rewrite nplayers_if_with_st, Hn2. exact Hc.
      * right. left. unfold chips_of in Hpc. injection Hpc as _ _ Hs _ _. exact Hs.
    + apply PayReset. intros j. apply actedf_reset_acted.
  - apply Z.leb_gt in E.
    set (w := p_wager (get_p b c) + chips) in *.
    set (g1 := upd_p b c (fun p => p_set_chips p (p_initial p) (p_initial p - w) (p_pot p) w)) in *.
    set (g2 := with_st g1 (st_add_rpot (g_st g1) (m_limit_pot (g_meta b)) chips)) in *.
    cbn [andb] in *.
    destruct (st_cw (g_st g2) <? w) eqn:Ew.
    + apply PayRaise.
      * intros j. apply actedf_become_raiser. unfold g2, g1. rewrite !nplayers_with_st, nplayers_upd. exact Hc.
      * right. right. unfold chips_of in Hpc. injection Hpc as _ _ _ _ Hw.
        refine (eq_trans Hw _). refine (eq_trans _ (eq_sym Hcw)). unfold pay_new_wager.
        replace (p_stack (get_p b c) <=? chips) with false by (symmetry; apply Z.leb_gt; exact E).
        apply Z.ltb_lt in Ew. change (st_cw (g_st g2)) with (st_cw (g_st b)) in Ew. fold w. lia.
    + apply Z.ltb_ge in Ew. change (st_cw (g_st g2)) with (st_cw (g_st b)) in Ew. apply PayQuiet.
      * intros j. unfold g2, g1. rewrite actedf_with_st, actedf_upd by exact Hc. destruct (Nat.eqb j c) eqn:Ej; [|reflexivity].
        apply Nat.eqb_eq in Ej. subst j. reflexivity.
      * reflexivity.
      * unfold chips_of in Hpc. injection Hpc as _ _ _ _ Hw. refine (Z.le_trans _ _ _ (Z.eq_le_incl _ _ Hw) _). exact Ew.
Qed.

(* a quiet payment did not exhaust the stack *)
Lemma pay_quiet_not_allin b c chips :
  (c < nplayers b)%nat -> (forall j, actedf (pay b c chips true) j = actedf b j) -> actedf b c = true ->
  st_cw (g_st (pay b c chips true)) = st_cw (g_st b) ->
  p_stack (get_p b c) <= chips -> (forall j, actedf (pay b c chips true) j = false) \/ (forall j, actedf (pay b c chips true) j = Nat.eqb j c) -> True.
Proof. auto. Qed.

(* ---------- the lap invariant ---------- *)
Definition seat_succ (g : gstate) (j : nat) : nat := left_of (nplayers g) j.

Record Linv (g : gstate) : Prop := mkLinv {
  l_matched : forall j, (j < nplayers g)%nat -> actedf g j = true -> matched g j;
  l_chain : forall j, (j < nplayers g)%nat -> actedf g j = true ->
            actedf g (seat_succ g j) = true \/ seat_succ g j = st_cur (g_st g) }.

Definition Lap (g : gstate) : Prop := st_event (g_st g) = EvRoundStarted -> Linv g.

(* after the bookkeeping of an accepted action by seat c, before the next seat is asked *)
Record Pre (g' : gstate) (c : nat) : Prop := mkPre {
  pr_matched : forall j, (j < nplayers g')%nat -> actedf g' j = true -> matched g' j;
  pr_chain : forall j, (j < nplayers g')%nat -> actedf g' j = true ->
             j = c \/ actedf g' (seat_succ g' j) = true \/ seat_succ g' j = c;
  pr_self : (exists j, (j < nplayers g')%nat /\ actedf g' j = true) -> actedf g' c = true }.

Lemma left_of_lt n c : (c < n)%nat -> (left_of n c < n)%nat.
Proof. intros H. unfold left_of. destruct (Nat.eqb (S c) n) eqn:E; [lia|apply Nat.eqb_neq in E; lia]. Qed.

Lemma matched_view g g' j :
  chips_view g' = chips_view g -> gv p_fold g' = gv p_fold g -> (j < nplayers g)%nat -> matched g j -> matched g' j.
Proof.
  intros Hv Hf Hj. unfold matched. rewrite (foldf_neutral g g' j Hf).
  destruct (cv_parts _ _ Hv) as (_ & Hpl & _ & Hcw & _).
  assert (E : chips_of (get_p g' j) = chips_of (get_p g j)).
  { rewrite !get_p_cv by (try rewrite (nplayers_cv _ _ Hv); exact Hj). now rewrite Hpl. }
  unfold chips_of in E. injection E as _ _ -> _ ->. rewrite Hcw. auto.
Qed.

Lemma actedf_set_current g n j : actedf (set_current g n) j = actedf g j.
Proof. apply acted_set_current. Qed.

(* asking the next seat *)
Lemma request_action_lap g' c :
  st_cur (g_st g') = c -> (c < nplayers g')%nat -> Pre g' c ->
  st_event (g_st (request_action g')) = EvRoundStarted -> st_event (g_st g') = EvRoundStarted -> Linv (request_action g').
Proof.
  intros Hc Hlt [P1 P2 P3] Ev' Ev. unfold request_action in *.
  destruct (Nat.eqb (alive_count g') 1); [simpl in Ev'; discriminate|].
  destruct (Nat.eqb (movable_count g') 0); [simpl in Ev'; discriminate|].
  destruct (p_acted (get_p g' (next_idx g'))) eqn:En; [simpl in Ev'; discriminate|].
  set (n1 := next_idx g') in *.
  assert (Hn : nplayers (set_current g' n1) = nplayers g') by apply nplayers_set_current.
  assert (Hn1 : n1 = seat_succ g' c) by (unfold n1, seat_succ; rewrite next_idx_left, Hc; reflexivity).
  constructor.
  - intros j Hj Ha. rewrite Hn in Hj. rewrite actedf_set_current in Ha.
    apply (matched_view g'); [apply cv_set_current|apply gv_set_current; reflexivity|exact Hj|apply P1; assumption].
  - intros j Hj Ha. rewrite Hn in Hj. rewrite actedf_set_current in Ha. unfold seat_succ. rewrite Hn. fold (seat_succ g' j).
    rewrite actedf_set_current. cbn [set_current upd_p with_st with_players g_st st_cur st_set_cur].
    destruct (P2 j Hj Ha) as [->|[H|H]].
    + right. symmetry. exact Hn1.
    + left. exact H.
    + left. rewrite H. apply P3. exists j. auto.
Qed.

(* when the chain has gone round the table, every seat has acted *)
Lemma cyclic_reach n c j : (c < n)%nat -> (j < n)%nat -> exists k, j = Nat.iter k (left_of n) c.
Proof.
  intros Hc Hj. destruct (exists_offset n c j Hc Hj) as (k & _ & Ek). exists k. rewrite <- Ek. clear Ek Hj.
  induction k as [|k IH]; [change (Nat.iter 0 (left_of n) c) with c; rewrite Nat.add_0_r; apply Nat.mod_small; exact Hc|].
  change (Nat.iter (S k) (left_of n) c) with (left_of n (Nat.iter k (left_of n) c)). rewrite <- IH. rewrite left_of_mod by (apply Nat.mod_upper_bound; lia).
  replace (S ((c + k) mod n)) with (1 + (c + k) mod n)%nat by lia. rewrite Nat.add_mod_idemp_r by lia. f_equal. lia.
Qed.

Lemma lap_complete g' c :
  st_cur (g_st g') = c -> (c < nplayers g')%nat -> Pre g' c ->
  actedf g' (next_idx g') = true -> forall j, (j < nplayers g')%nat -> actedf g' j = true /\ matched g' j.
Proof.
  intros Hc Hlt [P1 P2 P3] Hn.
  assert (Hn1 : next_idx g' = seat_succ g' c) by (unfold seat_succ; rewrite next_idx_left, Hc; reflexivity).
  assert (Hself : actedf g' c = true) by (apply P3; exists (next_idx g'); split; [rewrite Hn1; apply left_of_lt; exact Hlt|exact Hn]).
  assert (Hstep : forall j, (j < nplayers g')%nat -> actedf g' j = true -> actedf g' (seat_succ g' j) = true).
  { intros j Hj Ha. destruct (P2 j Hj Ha) as [->|[H|H]]; [rewrite <- Hn1; exact Hn|exact H|rewrite H; exact Hself]. }
  assert (Hall : forall k, actedf g' (Nat.iter k (left_of (nplayers g')) c) = true /\ (Nat.iter k (left_of (nplayers g')) c < nplayers g')%nat).
  { induction k as [|k [IH1 IH2]]; [split; [exact Hself|exact Hlt]|].
    change (Nat.iter (S k) (left_of (nplayers g')) c) with (left_of (nplayers g') (Nat.iter k (left_of (nplayers g')) c)).
    split; [apply (Hstep _ IH2 IH1)|apply left_of_lt; exact IH2]. }
  intros j Hj. destruct (cyclic_reach (nplayers g') c j Hlt Hj) as (k & ->). destruct (Hall k) as [A B]. split; [exact A|apply P1; assumption].
Qed.

(* ---------- from the invariant to the state after an action's bookkeeping ---------- *)
Lemma Pre_ext g1 g2 c : g_players g2 = g_players g1 -> st_cw (g_st g2) = st_cw (g_st g1) -> Pre g1 c -> Pre g2 c.
Proof.
  intros Hp Hc [P1 P2 P3].
  assert (Ha : forall j, actedf g2 j = actedf g1 j) by (intros j; unfold actedf, get_p; now rewrite Hp).
  assert (Hn : nplayers g2 = nplayers g1) by (unfold nplayers; now rewrite Hp).
  assert (Hm : forall j, matched g1 j -> matched g2 j) by (intros j; unfold matched, foldf, get_p; rewrite Hp, Hc; auto).
  constructor.
  - intros j Hj H. rewrite Hn in Hj. rewrite Ha in H. apply Hm, P1; assumption.
  - intros j Hj H. rewrite Hn in Hj. rewrite Ha in H. unfold seat_succ. rewrite Hn, Ha. apply P2; assumption.
  - intros (j & Hj & H). rewrite Ha. apply P3. exists j. rewrite <- Hn, <- Ha. auto.
Qed.

Lemma pre_reset g' c : (forall j, actedf g' j = false) -> Pre g' c.
Proof.
  intros H. constructor.
  - intros j _ Ha. rewrite H in Ha. discriminate.
  - intros j _ Ha. rewrite H in Ha. discriminate.
  - intros (j & _ & Ha). rewrite H in Ha. discriminate.
Qed.

Lemma pre_raise g' c : (forall j, actedf g' j = Nat.eqb j c) -> matched g' c -> Pre g' c.
Proof.
  intros H Hm. constructor.
  - intros j _ Ha. rewrite H in Ha. apply Nat.eqb_eq in Ha. subst j. exact Hm.
  - intros j _ Ha. rewrite H in Ha. apply Nat.eqb_eq in Ha. now left.
  - intros _. rewrite H. apply Nat.eqb_refl.
Qed.

Lemma pre_quiet g g' c :
  nplayers g' = nplayers g -> Linv g -> st_cur (g_st g) = c ->
  (forall j, actedf g' j = if Nat.eqb j c then true else actedf g j) ->
  (forall j, j <> c -> (j < nplayers g)%nat -> chips_of (get_p g' j) = chips_of (get_p g j) /\ foldf g' j = foldf g j) ->
  st_cw (g_st g') = st_cw (g_st g) -> matched g' c -> Pre g' c.
Proof.
  intros Hn [L1 L2] Hc Hf Ho Hcw Hm. constructor.
  - intros j Hj Ha. rewrite Hn in Hj. rewrite Hf in Ha. destruct (Nat.eqb j c) eqn:E; [apply Nat.eqb_eq in E; subst j; exact Hm|].
    apply Nat.eqb_neq in E. destruct (Ho j E Hj) as [Hch Hfo]. specialize (L1 j Hj Ha).
    unfold matched in *. rewrite Hfo, Hcw. unfold chips_of in Hch. injection Hch as _ _ -> _ ->. exact L1.
  - intros j Hj Ha. rewrite Hn in Hj. rewrite Hf in Ha. unfold seat_succ. rewrite Hn. fold (seat_succ g j).
    destruct (Nat.eqb j c) eqn:E; [apply Nat.eqb_eq in E; now left|]. right.
    destruct (L2 j Hj Ha) as [H|H]; [left; rewrite Hf, H; destruct (Nat.eqb (seat_succ g j) c); reflexivity|right; rewrite H; exact Hc].
  - intros _. rewrite Hf, Nat.eqb_refl. reflexivity.
Qed.

(* the paying actions *)
Lemma paying_pre g b c chips :
  Linv g -> st_cur (g_st g) = c -> (c < nplayers g)%nat -> seat_ok (get_p g c) -> 0 <= st_prs (g_st b) -> 0 <= chips ->
  nplayers b = nplayers g ->
  (forall j, actedf b j = if Nat.eqb j c then true else actedf g j) ->
  (forall j, (j < nplayers g)%nat -> chips_of (get_p b j) = chips_of (get_p g j)) ->
  (forall j, foldf b j = foldf g j) -> st_cw (g_st b) = st_cw (g_st g) ->
  (chips < p_stack (get_p g c) -> p_wager (get_p g c) + chips <= st_cw (g_st g) -> p_wager (get_p g c) + chips = st_cw (g_st g)) ->
  Pre (pay b c chips true) c.
Proof.
  intros HL Hc Hlt Hseat Hprs Hch Hn Hfb Hcb Hfo Hcw Hq.
  assert (Hcb' : (c < nplayers b)%nat) by (rewrite Hn; exact Hlt).
  assert (Hseatb : seat_ok (get_p b c)) by (eapply seat_ok_chips; [symmetry; apply Hcb; exact Hlt|exact Hseat]).
  destruct (pay_shapes b c chips Hcb' Hseatb Hprs Hch) as [Sh Hw]. cbv zeta in Sh, Hw.
  pose proof (pay_chips b c chips true Hcb') as Hpc. cbv zeta in Hpc.
  pose proof (Hcb c Hlt) as Ecc. unfold chips_of in Ecc. injection Ecc as Eb Ei Es Ep Ew.
  destruct Sh as [Hfl Hcw' Hle|Hfl Hm|Hfl].
  - apply (pre_quiet g _ c); try assumption.
    + rewrite pay_nplayers. exact Hn.
    + intros j. rewrite Hfl. apply Hfb.
    + intros j Hne Hj. split.
      * rewrite pay_other by (try (rewrite Hn; exact Hj); intros E; apply Hne; symmetry; exact E). apply Hcb. exact Hj.
      * rewrite foldf_pay. apply Hfo.
    + rewrite Hcw'. exact Hcw.
    + unfold matched. destruct (p_stack (get_p b c) <=? chips) eqn:E.
      * right. left. unfold chips_of in Hpc. injection Hpc as _ _ Hs _ _. exact Hs.
      * apply Z.leb_gt in E. right. right. rewrite Hcw', Hcw. rewrite Hw. rewrite Hw, Hcw in Hle.
        replace (Z.min chips (p_stack (get_p b c))) with chips in * by lia. rewrite Ew in *. apply Hq; [rewrite <- Es; exact E|exact Hle].
  - apply pre_raise; assumption.
  - apply pre_reset; assumption.
Qed.

Lemma available_pass s p : In APass (available_actions s p) -> p_fold p = true \/ p_stack p = 0.
Proof.
  unfold available_actions. destruct (p_fold p); [auto|]. destruct (p_stack p =? 0) eqn:E; [apply Z.eqb_eq in E; auto|].
  intros [H|H]; [discriminate|]. exfalso.
  destruct (p_wager p <? st_cw s).
  - destruct H as [H|H]; [discriminate|]. destruct (st_cw s <? p_initial p); [|contradiction]. destruct H as [H|H]; [discriminate|].
    destruct (_ <? _); [destruct H as [H|[]]; discriminate|contradiction].
  - destruct H as [H|H]; [discriminate|]. destruct (st_minibet s <=? p_initial p); [|contradiction].
    destruct (st_cw s =? 0); destruct H as [H|[]]; discriminate.
Qed.

Lemma available_check s p : In ACheck (available_actions s p) -> st_cw s <= p_wager p.
Proof.
  unfold available_actions. destruct (p_fold p); [intros [H|[]]; discriminate|]. destruct (p_stack p =? 0); [intros [H|[]]; discriminate|].
  intros [H|H]; [discriminate|]. destruct (p_wager p <? st_cw s) eqn:E; [|apply Z.ltb_ge in E; exact E]. exfalso.
  destruct H as [H|H]; [discriminate|]. destruct (st_cw s <? p_initial p); [|contradiction]. destruct H as [H|H]; [discriminate|].
  destruct (st_cw s + st_prs s <? p_initial p); [destruct H as [H|[]]; discriminate|contradiction].
Qed.

Lemma available_bet s p : In ABet (available_actions s p) -> st_cw s = 0.
Proof.
  unfold available_actions. destruct (p_fold p); [intros [H|[]]; discriminate|]. destruct (p_stack p =? 0); [intros [H|[]]; discriminate|].
  intros [H|H]; [discriminate|]. destruct (p_wager p <? st_cw s).
  - exfalso. destruct H as [H|H]; [discriminate|]. destruct (st_cw s <? p_initial p); [|contradiction]. destruct H as [H|H]; [discriminate|].
    destruct (_ <? _); [destruct H as [H|[]]; discriminate|contradiction].
  - destruct H as [H|H]; [discriminate|]. destruct (st_minibet s <=? p_initial p); [|contradiction].
    destruct (st_cw s =? 0) eqn:E; [apply Z.eqb_eq in E; exact E|destruct H as [H|[]]; discriminate].
Qed.

Lemma upd_acted_chips' g i d j : (j < nplayers g)%nat ->
  chips_of (get_p (upd_p g i (fun p => p_set_acted (p_set_did p d) true)) j) = chips_of (get_p g j).
Proof.
  intros Hj. destruct (Nat.eq_dec i j) as [<-|Hne]; [rewrite get_p_upd_same by exact Hj|rewrite get_p_upd_other by exact Hne]; reflexivity.
Qed.

(* what an accepted action does to the acted flags: the actor is added (no wager increase), or the actor
   alone remains (he is the new raiser), or all flags are cleared (short all-in) *)
Definition Shape (g g' : gstate) (i : nat) : Prop :=
  (forall j, actedf g' j = if Nat.eqb j i then true else actedf g j) \/
  (forall j, actedf g' j = Nat.eqb j i) \/
  (forall j, actedf g' j = false).

(* every accepted action: bookkeeping that yields Pre, then "ask the next seat" *)
Lemma act_pre g i a x :
  Good g -> Lap g -> snd (act_of g i a x) = Ok ->
  exists g', fst (act_of g i a x) = request_action g' /\ st_event (g_st g') = EvRoundStarted /\
             st_cur (g_st g') = i /\ (i < nplayers g')%nat /\ nplayers g' = nplayers g /\ Pre g' i /\ Shape g g' i.
Proof.
  intros [HI HO HK P _] HLap Hok.
  assert (Ctx : forall b, allowed g i b = true ->
            i = st_cur (g_st g) /\ st_event (g_st g) = EvRoundStarted /\ (i < nplayers g)%nat /\
            actedf g i = false /\ seat_ok (get_p g i) /\ In b (available_actions (g_st g) (get_p g i)) /\ Cinv g /\ Linv g).
  { intros b Hb. destruct (accepted_is_current g i b HI HO Hb) as [Ei Ev]. destruct (oi_cur g HO Ev) as [Hc Ho].
    rewrite <- Ei in Hc, Ho.
    split; [exact Ei|]. split; [exact Ev|]. split; [exact Hc|].
    split; [unfold actedf; rewrite Ei; apply (pi_cur g P Ev)|].
    split; [apply (c0_seats g (inv_chips g HI)); exact Hc|].
    split; [rewrite <- Ho; apply allowed_in; exact Hb|].
    split; [apply Inv_Cinv; [exact HI|rewrite Ev; discriminate]|apply HLap; exact Ev]. }
  (* the non-paying actions *)
  assert (Simple : forall (f : pstate -> pstate) t v,
            (forall p, chips_of (f p) = chips_of p) -> (forall p, p_acted (f p) = true) ->
            forall b, allowed g i b = true ->
            (p_fold (f (get_p g i)) = true \/ p_stack (get_p g i) = 0 \/ p_wager (get_p g i) = st_cw (g_st g)) ->
            exists g', resume (set_last (upd_p g i f) (zn i) t v) = request_action g' /\ st_event (g_st g') = EvRoundStarted /\
                       st_cur (g_st g') = i /\ (i < nplayers g')%nat /\ nplayers g' = nplayers g /\ Pre g' i /\ Shape g g' i).
  { intros f t v Hf Ha b Hb Hm. destruct (Ctx b Hb) as (Ei & Ev & Hi & Hact & _ & _ & _ & HL).
    exists (set_last (upd_p g i f) (zn i) t v).
    assert (E' : st_event (g_st (set_last (upd_p g i f) (zn i) t v)) = EvRoundStarted) by exact Ev.
    assert (Hn : nplayers (set_last (upd_p g i f) (zn i) t v) = nplayers g) by (unfold set_last; rewrite nplayers_with_st; apply nplayers_upd).
    split; [unfold resume; rewrite E'; reflexivity|]. split; [exact E'|]. split; [symmetry; exact Ei|]. split; [rewrite Hn; exact Hi|]. split; [exact Hn|].
    split; [|left; intros j; change (actedf (set_last (upd_p g i f) (zn i) t v) j) with (actedf (upd_p g i f) j); rewrite actedf_upd by exact Hi; rewrite Ha; reflexivity].
    apply (Pre_ext (upd_p g i f)); [reflexivity|reflexivity|].
    refine (pre_quiet g _ i _ HL _ _ _ _ _).
    - apply nplayers_upd.
    - symmetry. exact Ei.
    - intros j. rewrite actedf_upd by exact Hi. rewrite Ha. reflexivity.
    - intros j Hne Hj. unfold foldf. rewrite get_p_upd_other by (intros E; apply Hne; symmetry; exact E). split; reflexivity.
    - reflexivity.
    - unfold matched, foldf. rewrite get_p_upd_same by exact Hi. pose proof (Hf (get_p g i)) as Hc. unfold chips_of in Hc. injection Hc as _ _ -> _ ->. exact Hm. }
  (* the paying actions: base state b0 (the acting seat marked, possibly a new minimum raise), then the payment *)
  assert (Paying : forall d (F : gstate -> gstate) (G : gstate -> gstate) chips t v b,
            allowed g i b = true ->
            (forall y, g_players (F y) = g_players y /\ st_cw (g_st (F y)) = st_cw (g_st y) /\ st_event (g_st (F y)) = st_event (g_st y) /\ st_cur (g_st (F y)) = st_cur (g_st y)) ->
            (forall y, g_players (G y) = g_players y /\ st_cw (g_st (G y)) = st_cw (g_st y) /\ st_event (g_st (G y)) = st_event (g_st y) /\ st_cur (g_st (G y)) = st_cur (g_st y)) ->
            0 <= st_prs (g_st (F (upd_p g i (fun p => p_set_acted (p_set_did p d) true)))) -> 0 <= chips ->
            (chips < p_stack (get_p g i) -> p_wager (get_p g i) + chips <= st_cw (g_st g) -> p_wager (get_p g i) + chips = st_cw (g_st g)) ->
            exists g', resume (set_last (G (pay (F (upd_p g i (fun p => p_set_acted (p_set_did p d) true))) i chips true)) (zn i) t v) = request_action g' /\
                       st_event (g_st g') = EvRoundStarted /\ st_cur (g_st g') = i /\ (i < nplayers g')%nat /\ nplayers g' = nplayers g /\ Pre g' i /\ Shape g g' i).
  { intros d F G chips t v b Hb HF HG Hprs Hch Hq. destruct (Ctx b Hb) as (Ei & Ev & Hi & Hact & Hseat & _ & _ & HL).
    set (g1 := upd_p g i (fun p => p_set_acted (p_set_did p d) true)) in *.
    set (b0 := F g1) in *. destruct (HF g1) as (F1 & F2 & F3 & F4).
    assert (Hn0 : nplayers b0 = nplayers g) by (unfold b0, nplayers; rewrite F1; apply nplayers_upd).
    assert (Hget0 : forall j, get_p b0 j = get_p g1 j) by (intros j; unfold get_p, b0; now rewrite F1).
    assert (HP : Pre (pay b0 i chips true) i).
    { apply (paying_pre g b0 i chips HL (eq_sym Ei) Hi Hseat Hprs Hch Hn0).
      - intros j. unfold actedf. rewrite Hget0. fold (actedf g1 j). unfold g1. rewrite actedf_upd by exact Hi. reflexivity.
      - intros j Hj. rewrite Hget0. apply upd_acted_chips'. exact Hj.
      - intros j. unfold foldf. rewrite Hget0. unfold g1. destruct (Nat.eq_dec i j) as [<-|Hne].
        + destruct (Nat.lt_ge_cases i (nplayers g)) as [H|H]; [rewrite get_p_upd_same by exact H; reflexivity|lia].
        + rewrite get_p_upd_other by exact Hne. reflexivity.
      - unfold b0. rewrite F2. reflexivity.
      - exact Hq. }
    set (g2 := pay b0 i chips true) in *. destruct (HG g2) as (G1 & G2 & G3 & G4).
    exists (set_last (G g2) (zn i) t v).
    assert (E' : st_event (g_st (set_last (G g2) (zn i) t v)) = EvRoundStarted).
    { cbn [set_last with_st g_st st_event st_set_last]. rewrite G3. unfold g2. rewrite event_pay. unfold b0. rewrite F3. exact Ev. }
    assert (Hn : nplayers (set_last (G g2) (zn i) t v) = nplayers g).
    { unfold set_last. rewrite nplayers_with_st. unfold nplayers at 1. rewrite G1. fold (nplayers g2). unfold g2. rewrite pay_nplayers. exact Hn0. }
    split; [unfold resume; rewrite E'; reflexivity|]. split; [exact E'|].
    split; [cbn [set_last with_st g_st st_cur st_set_last]; rewrite G4; unfold g2; rewrite cur_pay; unfold b0; rewrite F4; symmetry; exact Ei|].
    split; [rewrite Hn; exact Hi|]. split; [exact Hn|].
    split; [apply (Pre_ext g2); [cbn [set_last with_st g_players]; exact G1|cbn [set_last with_st g_st st_cw st_set_last]; exact G2|exact HP]|].
    assert (Hfl : forall j, actedf (set_last (G g2) (zn i) t v) j = actedf g2 j).
    { intros j. unfold actedf, get_p. cbn [set_last with_st g_players]. now rewrite G1. }
    assert (Hfb : forall j, actedf b0 j = if Nat.eqb j i then true else actedf g j).
    { intros j. unfold actedf. rewrite Hget0. fold (actedf g1 j). unfold g1. rewrite actedf_upd by exact Hi. reflexivity. }
    assert (Hseatb : seat_ok (get_p b0 i)).
    { eapply seat_ok_chips; [|exact Hseat]. rewrite Hget0. symmetry. apply upd_acted_chips'. exact Hi. }
    destruct (pay_shapes b0 i chips ltac:(rewrite Hn0; exact Hi) Hseatb Hprs Hch) as [Sh _]. cbv zeta in Sh. fold g2 in Sh.
    destruct Sh as [Q _ _|R _|Z0].
    - left. intros j. rewrite Hfl, Q. apply Hfb.
    - right. left. intros j. rewrite Hfl. apply R.
    - right. right. intros j. rewrite Hfl. apply Z0. }
  assert (Hcall : snd (act_call g i) = Ok -> exists g', fst (act_call g i) = request_action g' /\ st_event (g_st g') = EvRoundStarted /\
             st_cur (g_st g') = i /\ (i < nplayers g')%nat /\ nplayers g' = nplayers g /\ Pre g' i /\ Shape g g' i).
  { unfold act_call. destruct (allowed g i ACall) eqn:Ha; [|discriminate]. cbn [negb fst snd]. intros _.
    destruct (Ctx ACall Ha) as (_ & _ & Hi & _ & _ & Hin & Hc & _).
    destruct (available_facts _ _ ACall Hin ltac:(discriminate)) as (_ & Hw & _). specialize (Hw eq_refl).
    apply (Paying DCall (fun y => y) (fun y => y) _ LCall _ ACall Ha); try (intros y; repeat split; reflexivity).
    - apply (ci_prs g Hc).
    - destruct (st_cw (g_st g) <? m_bbb (g_meta g)) eqn:E; [apply Z.ltb_lt in E|]; lia.
    - intros _. destruct (st_cw (g_st g) <? m_bbb (g_meta g)) eqn:E; [apply Z.ltb_lt in E|]; lia. }
  assert (Hallin : snd (act_allin g i) = Ok -> exists g', fst (act_allin g i) = request_action g' /\ st_event (g_st g') = EvRoundStarted /\
             st_cur (g_st g') = i /\ (i < nplayers g')%nat /\ nplayers g' = nplayers g /\ Pre g' i /\ Shape g g' i).
  { unfold act_allin. destruct (allowed g i AAllin) eqn:Ha; [|discriminate]. cbn [negb fst snd]. intros _.
    destruct (Ctx AAllin Ha) as (_ & _ & Hi & _ & Hseat & _ & Hc & _).
    set (g1 := upd_p g i (fun p => p_set_acted (p_set_did p DAllin) true)).
    assert (Hst : p_stack (get_p g1 i) = p_stack (get_p g i)) by (unfold g1; rewrite get_p_upd_same by exact Hi; reflexivity).
    assert (Hin : p_initial (get_p g1 i) = p_initial (get_p g i)) by (unfold g1; rewrite get_p_upd_same by exact Hi; reflexivity).
    pose proof (ci_prs g Hc) as Hprs. destruct Hseat as (_ & _ & S3 & _).
    apply (Paying DAllin (fun y => if st_prs (g_st y) <=? p_initial (get_p y i) - st_cw (g_st y)
                                   then with_st y (st_set_prs (g_st y) (p_initial (get_p y i) - st_cw (g_st y))) else y)
                  (fun y => y) _ LAllin _ AAllin Ha).
    - intros y. destruct (_ <=? _); repeat split; reflexivity.
    - intros y. repeat split; reflexivity.
    - fold g1. destruct (st_prs (g_st g1) <=? p_initial (get_p g1 i) - st_cw (g_st g1)) eqn:E; [apply Z.leb_le in E; cbn [with_st g_st st_prs st_set_prs]; change (st_prs (g_st g1)) with (st_prs (g_st g)) in E; lia|exact Hprs].
    - fold g1. rewrite Hst. exact S3.
    - fold g1. rewrite Hst. lia. }
  destruct a; cbn [act_of] in *.
  - unfold act_pass in *. destruct (allowed g i APass) eqn:Ha; [|discriminate]. cbn [negb fst snd] in *.
    destruct (Ctx APass Ha) as (_ & _ & _ & _ & _ & Hin & _).
    apply (Simple (fun p => p_set_acted p true) LPass 0 ltac:(reflexivity) ltac:(reflexivity) APass Ha).
    destruct (available_pass _ _ Hin) as [H|H]; [left; exact H|right; left; exact H].
  - unfold act_fold in *. destruct (allowed g i AFold) eqn:Ha; [|discriminate]. cbn [negb fst snd] in *.
    apply (Simple (fun p => p_set_acted (p_set_did (p_set_fold p true) DFold) true) LFold 0 ltac:(reflexivity) ltac:(reflexivity) AFold Ha). left. reflexivity.
  - unfold act_check in *. destruct (allowed g i ACheck) eqn:Ha; [|discriminate]. cbn [negb fst snd] in *.
    destruct (Ctx ACheck Ha) as (_ & _ & Hi & _ & _ & Hin & Hc & _).
    apply (Simple (fun p => p_set_acted (p_set_did p DCheck) true) LCheck 0 ltac:(reflexivity) ltac:(reflexivity) ACheck Ha).
    right. right. pose proof (available_check _ _ Hin). pose proof (ci_le g Hc i Hi). lia.
  - apply Hcall. exact Hok.
  - apply Hallin. exact Hok.
  - unfold act_bet in *. destruct (allowed g i ABet) eqn:Ha; [|discriminate]. cbn [negb] in *.
    destruct (x <=? 0) eqn:Ex; [discriminate|]. apply Z.leb_gt in Ex.
    destruct (_ <=? x); [apply Hallin; exact Hok|]. cbn [fst snd] in *.
    destruct (Ctx ABet Ha) as (_ & _ & Hi & _ & Hseat & Hin & Hc & _).
    pose proof (available_bet _ _ Hin) as Hcw0. destruct Hseat as (_ & _ & _ & S4 & _).
    apply (Paying DBet (fun y => y) (fun y => with_st y (st_set_prs (g_st y) x)) x LBet x ABet Ha); try (intros y; repeat split; reflexivity).
    + apply (ci_prs g Hc).
    + lia.
    + intros _ H. lia.
  - unfold act_raise in *. destruct (allowed g i ARaise) eqn:Ha; [|discriminate]. cbn [negb] in *.
    destruct ((x =? 0) || (x <? st_cw (g_st g))) eqn:E1; [discriminate|]. apply orb_false_elim in E1 as [E1a E1b].
    apply Z.eqb_neq in E1a. apply Z.ltb_ge in E1b.
    destruct (x =? st_cw (g_st g)) eqn:E2; [apply Hcall; exact Hok|]. apply Z.eqb_neq in E2.
    destruct (_ || _); [apply Hallin; exact Hok|]. cbn [fst snd] in *.
    destruct (Ctx ARaise Ha) as (_ & _ & Hi & _ & Hseat & Hin & Hc & _).
    destruct (available_facts _ _ ARaise Hin ltac:(discriminate)) as (_ & _ & Hr). specialize (Hr eq_refl).
    pose proof (ci_le g Hc i Hi) as Hle. pose proof (ci_cw g Hc) as Hcw. pose proof (ci_prs g Hc) as Hprs.
    destruct Hseat as (_ & _ & _ & S4 & _).
    assert (Hcwpos : 0 < st_cw (g_st g)) by (destruct Hr; lia).
    match goal with |- context [pay (with_st ?gg (st_set_prs _ ?rr)) i ?qq true] =>
      apply (Paying DRaise (fun y => with_st y (st_set_prs (g_st y) rr)) (fun y => y) qq LRaise qq ARaise Ha) end;
      try (intros y; repeat split; reflexivity).
    + cbn [with_st g_st st_prs st_set_prs]. destruct (m_limit_pot (g_meta g) && _); lia.
    + destruct (m_limit_pot (g_meta g) && _); lia.
    + intros _. destruct (m_limit_pot (g_meta g) && _); lia.
  - exfalso. unfold act_pay in Hok. destruct (allowed g i APay) eqn:Ha; [|discriminate].
    pose proof (inv_nopay g HI i) as Hn. unfold allowed in Ha. simpl in Hn. rewrite Hn in Ha. discriminate.
Qed.

(* ---------- the invariant over a hand ---------- *)
Definition all_unacted (g : gstate) : Prop := forall j, actedf g j = false.

Lemma unacted_Linv g : all_unacted g -> Linv g.
Proof. intros H. constructor; intros j _ Ha; rewrite H in Ha; discriminate. Qed.

Lemma unacted_reset_all g : all_unacted (reset_all g).
Proof.
  intros j. destruct (Nat.lt_ge_cases j (nplayers g)) as [H|H].
  - unfold actedf, reset_all. rewrite get_p_map by exact H. reflexivity.
  - apply actedf_overflow. rewrite (nplayers_cv _ _ (cv_reset_all g)). exact H.
Qed.

Lemma unacted_find_bb_loop n : forall g, all_unacted g -> all_unacted (find_bb_loop n g).
Proof.
  induction n as [|n IH]; intros g H; cbn [find_bb_loop]; [exact H|].
  assert (H1 : all_unacted (set_current g (next_idx g))) by (intros j; rewrite actedf_set_current; apply H).
  destruct (p_bb _); [exact H1|apply IH; exact H1].
Qed.

Lemma unacted_request_action g : all_unacted g -> st_event (g_st (request_action g)) = EvRoundStarted -> all_unacted (request_action g).
Proof.
  intros H. unfold request_action.
  destruct (Nat.eqb (alive_count g) 1); [simpl; discriminate|].
  destruct (Nat.eqb (movable_count g) 0); [simpl; discriminate|].
  destruct (p_acted _); [simpl; discriminate|]. intros _ j. rewrite actedf_set_current. apply H.
Qed.

Lemma start_round_unacted g : st_event (g_st (start_round g)) = EvRoundStarted -> all_unacted (start_round g).
Proof.
  pose proof (unacted_reset_all g) as H0.
  assert (H1 : all_unacted (set_current (reset_all g) (dealer_of (reset_all g)))) by (intros j; rewrite actedf_set_current; apply H0).
  unfold start_round. destruct (st_round (g_st (reset_all g))).
  all: try (intros E; apply unacted_request_action; [exact H1|exact E]).
  destruct (Nat.eqb (movable_count (reset_all g)) 0); [simpl; discriminate|].
  intros E. apply unacted_request_action; [|exact E]. intros j. cbn [set_event with_st]. apply (unacted_find_bb_loop _ _ H1).
Qed.

(* the table operations other than Ready never open a betting round *)
Lemma table_op_not_started g o :
  Good g -> (o = OPayAnte \/ o = OPayBlinds \/ o = ONext) -> snd (step g o) = Ok ->
  st_event (g_st (fst (step g o))) <> EvRoundStarted.
Proof.
  intros [HI HO HK P HR] Ho Hok Ev'. destruct Ho as [->|[->| ->]]; cbn [step] in *.
  - revert Ev' Hok. unfold do_pay_ante. destruct (_ =? 0); [discriminate|]. destruct (negb _); [discriminate|].
    destruct (ante_loop (player_order g) g) as [g1 [|]]; [|discriminate]. intros Ev' Ok1.
    destruct (ph_enter_preflop _ Ok1) as [H|H]; destruct (event_of_ph _ _ _ H) as [E1 _]; rewrite E1 in Ev'; discriminate.
  - revert Ev' Hok. unfold do_pay_blinds. destruct (negb _); [discriminate|]. cbn [fst snd]. intros Ev' _.
    match type of Ev' with context [prepare_round ?y] => destruct (ph_prepare_round y) as [H|[H _]]; destruct (event_of_ph _ _ _ H) as [E1 _]; rewrite E1 in Ev'; discriminate end.
  - revert Ev' Hok. unfold do_next. destruct (event_eqb (st_event (g_st g)) EvRoundClosed) eqn:Ee; [|discriminate]. cbn [negb].
    assert (He : st_event (g_st g) = EvRoundClosed) by (destruct (st_event (g_st g)); try discriminate; reflexivity).
    set (g0 := set_last g (-1) LNext 0). set (g1 := reset_all_status (reset_round_status g0)).
    set (guard := fun res : gstate * outcome => match res with (_, Panic) => (g, Panic) | x => x end).
    assert (Hgc : st_event (g_st (fst (guard (game_completed g1)))) = EvRoundStarted -> snd (guard (game_completed g1)) = Ok -> False).
    { unfold guard. pose proof (ph_game_completed g1) as H. destruct (game_completed g1) as [g2 o2]. cbn [fst snd] in *.
      destruct o2; cbn [fst snd]; try discriminate. intros Ev' _. destruct (event_of_ph _ _ _ (H eq_refl)) as [E1 _]. rewrite E1 in Ev'. discriminate. }
    assert (Hst : forall r, st_event (g_st (fst (guard (enter_street g1 r)))) = EvRoundStarted -> snd (guard (enter_street g1 r)) = Ok -> False).
    { intros r. unfold guard. pose proof (ph_enter_street g1 r) as H. destruct (enter_street g1 r) as [g2 o2]. cbn [fst snd] in *.
      destruct o2; cbn [fst snd]; try discriminate. intros Ev' _.
      destruct (H eq_refl) as [H1|[H1 _]]; destruct (event_of_ph _ _ _ H1) as [E1 _]; rewrite E1 in Ev'; discriminate. }
    destruct (st_round (g_st g0)).
    + cbn [fst snd]. intros Ev' _. assert (E : st_event (g_st g) = EvRoundStarted) by exact Ev'. rewrite E in He. discriminate.
    + destruct (Nat.eqb (alive_count g1) 1); intros Ev' Ok1; [apply Hgc; assumption|apply (Hst _ Ev' Ok1)].
    + destruct (Nat.eqb (alive_count g1) 1); intros Ev' Ok1; [apply Hgc; assumption|apply (Hst _ Ev' Ok1)].
    + destruct (Nat.eqb (alive_count g1) 1); intros Ev' Ok1; [apply Hgc; assumption|apply (Hst _ Ev' Ok1)].
    + destruct (Nat.eqb (alive_count g1) 1); intros Ev' Ok1; apply Hgc; assumption.
Qed.

Theorem Lap_step g o : Good g -> Lap g -> Lap (fst (step g o)).
Proof.
  intros HG HL. destruct (outcome_ok_dec (snd (step g o))) as [Hok|Hno].
  2: { rewrite (refused_changes_nothing g o HG Hno). exact HL. }
  destruct o as [| | | |who a x].
  - intros Ev'. cbn [step] in *. revert Ev' Hok. unfold do_ready. destruct (negb _); [discriminate|].
    destruct (st_round (g_st (reset_all g))).
    1: { destruct (0 <? _); cbn [fst snd]; [simpl; discriminate|]. intros Ev' Ok1.
         destruct (ph_enter_preflop _ Ok1) as [H|H]; destruct (event_of_ph _ _ _ H) as [E1 _]; rewrite E1 in Ev'; discriminate. }
    all: cbn [fst snd]; intros Ev' _; apply unacted_Linv, start_round_unacted; exact Ev'.
  - intros Ev'. exfalso. apply (table_op_not_started g OPayAnte HG (or_introl eq_refl) Hok Ev').
  - intros Ev'. exfalso. apply (table_op_not_started g OPayBlinds HG (or_intror (or_introl eq_refl)) Hok Ev').
  - intros Ev'. exfalso. apply (table_op_not_started g ONext HG (or_intror (or_intror eq_refl)) Hok Ev').
  - cbn [step] in *. destruct (negb _); [discriminate|].
    match type of Hok with snd ?r = Ok => change r with (act_of g (match who with Some i => i | None => st_cur (g_st g) end) a x) in * end.
    set (i := match who with Some i => i | None => st_cur (g_st g) end) in *.
    destruct (act_pre g i a x HG HL Hok) as (g' & E & Ev & Hc & Hi & Hn & HP & _). rewrite E.
    intros Ev'. apply (request_action_lap g' i Hc Hi HP Ev' Ev).
Qed.

Theorem Lap_run ops : forall g, Good g -> Lap g -> Lap (run g ops).
Proof.
  unfold run. induction ops as [|o t IH]; intros g HG HL; cbn [fold_left]; [exact HL|].
  apply IH; [apply Good_step; exact HG|apply Lap_step; assumption].
Qed.

Theorem Lap_reachable c deck g ops :
  cfg_ok c -> length deck = length (c_deck c) -> create c deck = (g, Ok) -> Lap (run g ops).
Proof.
  intros Hc Hl Hcr. apply Lap_run; [apply (Good_reachable c deck g [] Hc Hl Hcr)|].
  intros Ev. exfalso. pose proof (Pinv_create c deck g Hcr) as P. unfold create in Hcr.
  destruct (Nat.ltb _ 2); [discriminate|]. destruct (dealer_opt _); [|discriminate].
  destruct (existsb _ _); [discriminate|]. destruct (Nat.eqb _ 0); [discriminate|]. destruct (Nat.ltb _ _); [discriminate|].
  injection Hcr as <-. simpl in Ev. discriminate.
Qed.

(* ---------- never closed early ---------- *)
(* when an accepted action closes the betting round, then only one player is left, or nobody has chips, or
   every seat has acted since the wager to match last went up and every seat still in the betting with
   chips has put in exactly the wager to match *)
Theorem closed_only_when_settled g who a x s' :
  Good g -> Lap g -> step g (OAct who a x) = (s', Ok) -> st_event (g_st s') = EvRoundClosed ->
  exists g', s' = round_closed g' /\ nplayers g' = nplayers g /\
    (alive_count g' = 1%nat \/ movable_count g' = 0%nat \/
     forall j, (j < nplayers g')%nat -> actedf g' j = true /\ matched g' j).
Proof.
  intros HG HL Hs Ev'. cbn [step] in Hs. destruct (negb _); [discriminate|].
  match type of Hs with ?r = _ => change r with (act_of g (match who with Some i => i | None => st_cur (g_st g) end) a x) in * end.
  set (i := match who with Some i => i | None => st_cur (g_st g) end) in *.
  assert (Hok : snd (act_of g i a x) = Ok) by (rewrite Hs; reflexivity).
  destruct (act_pre g i a x HG HL Hok) as (g' & E & Ev & Hc & Hi & Hn & HP & _).
  assert (Es : s' = request_action g') by (rewrite <- E, Hs; reflexivity).
  exists g'. split; [|split; [exact Hn|]].
  - rewrite Es in *. unfold request_action in *.
    destruct (Nat.eqb (alive_count g') 1); [reflexivity|]. destruct (Nat.eqb (movable_count g') 0); [reflexivity|].
    destruct (p_acted _); [reflexivity|]. exfalso. rewrite event_set_current, Ev in Ev'. discriminate.
  - rewrite Es in Ev'. unfold request_action in Ev'.
    destruct (Nat.eqb (alive_count g') 1) eqn:E1; [left; apply Nat.eqb_eq; exact E1|].
    destruct (Nat.eqb (movable_count g') 0) eqn:E2; [right; left; apply Nat.eqb_eq; exact E2|].
    destruct (p_acted (get_p g' (next_idx g'))) eqn:E3; [|exfalso; rewrite event_set_current, Ev in Ev'; discriminate].
    right. right. apply (lap_complete g' i Hc Hi HP E3).
Qed.

(* round_closed keeps chips, folds and the wager to match: the seats are still matched in the closed state *)
Lemma matched_round_closed g j : (j < nplayers g)%nat -> matched g j -> matched (round_closed g) j.
Proof. intros Hj. apply matched_view; [apply cv_round_closed|apply gv_round_closed; reflexivity|exact Hj]. Qed.

(* ---------- within one lap ---------- *)
(* counting the seats that have not acted *)
Definition cnt (F : nat -> bool) (start len : nat) : nat := length (filter (fun j => negb (F j)) (seq start len)).

Lemma cnt_ext F G start len : (forall j, (start <= j < start + len)%nat -> F j = G j) -> cnt F start len = cnt G start len.
Proof.
  unfold cnt. revert start. induction len as [|len IH]; intros start H; cbn [seq filter]; [reflexivity|].
  rewrite (H start ltac:(lia)). destruct (negb (G start)); cbn [length]; rewrite (IH (S start)) by (intros j Hj; apply H; lia); reflexivity.
Qed.

Lemma cnt_false start len : cnt (fun _ => false) start len = len.
Proof. unfold cnt. revert start. induction len as [|len IH]; intros start; cbn [seq filter negb length]; [reflexivity|]. now rewrite IH. Qed.

Lemma cnt_le F start len : (cnt F start len <= len)%nat.
Proof. unfold cnt. rewrite <- (seq_length len start) at 2. apply filter_len_le. Qed.

Lemma cnt_set F i start len : (start <= i < start + len)%nat -> F i = false ->
  S (cnt (fun j => if Nat.eqb j i then true else F j) start len) = cnt F start len.
Proof.
  unfold cnt. revert start. induction len as [|len IH]; intros start Hi HF; [lia|]. cbn [seq filter].
  destruct (Nat.eqb start i) eqn:E.
  - apply Nat.eqb_eq in E. subst i. rewrite HF. cbn [negb length]. f_equal.
    fold (cnt (fun j => if Nat.eqb j start then true else F j) (S start) len). fold (cnt F (S start) len).
    apply cnt_ext. intros j Hj. replace (Nat.eqb j start) with false by (symmetry; apply Nat.eqb_neq; lia). reflexivity.
  - apply Nat.eqb_neq in E. destruct (negb (F start)); cbn [length]; rewrite <- (IH (S start)) by (try assumption; lia); reflexivity.
Qed.

Lemma cnt_single i start len : (start <= i < start + len)%nat -> S (cnt (fun j => Nat.eqb j i) start len) = len.
Proof.
  intros Hi. rewrite <- (cnt_false start len) at 2. rewrite <- (cnt_set (fun _ => false) i start len Hi eq_refl).
  f_equal. apply cnt_ext. intros j _. destruct (Nat.eqb j i); reflexivity.
Qed.

Lemma pending_cnt g : pending g = zn (cnt (actedf g) 0 (nplayers g)).
Proof.
  unfold pending, cnt, actedf, get_p, nplayers. f_equal.
  assert (G : forall (l : list pstate) start,
            length (filter (fun p => negb (p_acted p)) l) =
            length (filter (fun j => negb (p_acted (nth (j - start) l dflt_p))) (seq start (length l)))).
  { induction l as [|p t IH]; intros start; cbn [length seq filter]; [reflexivity|].
    replace (start - start)%nat with 0%nat by lia. change (nth 0 (p :: t) dflt_p) with p.
    assert (E : filter (fun j => negb (p_acted (nth (j - start) (p :: t) dflt_p))) (seq (S start) (length t))
              = filter (fun j => negb (p_acted (nth (j - S start) t dflt_p))) (seq (S start) (length t))).
    { apply filter_ext_in. intros j Hj. apply in_seq in Hj. replace (j - start)%nat with (S (j - S start)) by lia. reflexivity. }
    destruct (negb (p_acted p)); cbn [length]; rewrite E, <- (IH (S start)); reflexivity. }
  rewrite (G (g_players g) 0%nat). f_equal. apply filter_ext. intros j. now rewrite Nat.sub_0_r.
Qed.

(* an accepted action either adds the actor to the seats that have acted, or is a wager increase / all-in
   that starts a new lap *)
Theorem lap_progress g who a x s' :
  Good g -> Lap g -> step g (OAct who a x) = (s', Ok) -> st_event (g_st s') = EvRoundStarted ->
  pending s' = pending g - 1 \/ zn (nplayers g) - 1 <= pending s'.
Proof.
  intros HG HL Hs Ev'. pose proof HG as [HI HO HK P HR]. cbn [step] in Hs. destruct (negb _); [discriminate|].
  match type of Hs with ?r = _ => change r with (act_of g (match who with Some i => i | None => st_cur (g_st g) end) a x) in * end.
  set (i := match who with Some i => i | None => st_cur (g_st g) end) in *.
  assert (Hok : snd (act_of g i a x) = Ok) by (rewrite Hs; reflexivity).
  destruct (act_pre g i a x HG HL Hok) as (g' & E & Ev & Hc & Hi & Hn & _ & Sh).
  assert (Es : s' = request_action g') by (rewrite <- E, Hs; reflexivity).
  assert (Hp : pending s' = pending g').
  { rewrite Es in *. unfold request_action in *.
    destruct (Nat.eqb (alive_count g') 1); [simpl in Ev'; discriminate|]. destruct (Nat.eqb (movable_count g') 0); [simpl in Ev'; discriminate|].
    destruct (p_acted _); [simpl in Ev'; discriminate|]. apply pending_set_current. }
  rewrite Hp, !pending_cnt, Hn. rewrite Hn in Hi.
  (* the actor had not acted *)
  assert (Hfalse : actedf g i = false).
  { assert (Evg : st_event (g_st g) = EvRoundStarted).
    { destruct (st_event (g_st g)) eqn:Evg; try reflexivity; exfalso;
        assert (Hno : no_offers g) by (apply (inv_offers g HI); rewrite Evg; discriminate);
        unfold act_of in Hok; destruct a; cbn in Hok;
        unfold act_pass, act_fold, act_check, act_call, act_allin, act_bet, act_raise, act_pay in Hok;
        rewrite ?(allowed_nil g i _ (Hno i)) in Hok; cbn in Hok; discriminate. }
    assert (Hcur : i = st_cur (g_st g)).
    { destruct (Nat.eq_dec i (st_cur (g_st g))) as [H|H]; [exact H|]. exfalso.
      pose proof (oi_only g HO i H) as Hnil.
      unfold act_of in Hok; destruct a; cbn in Hok;
        unfold act_pass, act_fold, act_check, act_call, act_allin, act_bet, act_raise, act_pay in Hok;
        rewrite ?(allowed_nil g i _ Hnil) in Hok; cbn in Hok; discriminate. }
    unfold actedf. rewrite Hcur. apply (pi_cur g P Evg). }
  destruct Sh as [Q|[R|Z0]].
  - left. rewrite (cnt_ext (actedf g') _ 0 (nplayers g) (fun j _ => Q j)).
    pose proof (cnt_set (actedf g) i 0 (nplayers g) ltac:(lia) Hfalse). unfold zn. lia.
  - right. rewrite (cnt_ext (actedf g') _ 0 (nplayers g) (fun j _ => R j)).
    pose proof (cnt_single i 0 (nplayers g) ltac:(lia)). unfold zn. lia.
  - right. rewrite (cnt_ext (actedf g') _ 0 (nplayers g) (fun j _ => Z0 j)), cnt_false. unfold zn. lia.
Qed.

(* in an open round at least one seat — the one to act — has not acted, and at most all of them *)
Theorem open_round_pending g : Good g -> st_event (g_st g) = EvRoundStarted -> 1 <= pending g <= zn (nplayers g).
Proof.
  intros [HI HO HK P HR] Ev. split; [|apply pending_range].
  rewrite pending_cnt. pose proof (pi_cur g P Ev) as Hc. pose proof (oi_range g HO) as Hr.
  pose proof (cnt_set (actedf g) (st_cur (g_st g)) 0 (nplayers g) ltac:(lia) Hc). unfold zn. lia.
Qed.
