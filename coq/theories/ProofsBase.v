(* ProofsBase.v — generic list lemmas used by the proofs. *)
From Coq Require Import Lia.
From PF Require Import Base.

Lemma update_nth_length {A} n (f : A -> A) l : length (update_nth n f l) = length l.
Proof. revert n; induction l as [|x t IH]; intros [|n]; simpl; auto. Qed.

Lemma nth_update_nth_same {A} (l : list A) i f d : (i < length l)%nat -> nth i (update_nth i f l) d = f (nth i l d).
Proof. revert i; induction l as [|x t IH]; intros [|i] Hi; simpl in *; try lia; auto. apply IH. lia. Qed.

Lemma nth_update_nth_other {A} (l : list A) i j f d : i <> j -> nth j (update_nth i f l) d = nth j l d.
Proof. revert i j; induction l as [|x t IH]; intros [|i] [|j] Hij; simpl; auto; try lia. Qed.
