(* C11 — offered actions fit the betting situation. The offer table, clause by clause. *)
From PF Require Import Base ModelGame ProofsGameBasic.

Theorem C11_folded_or_allin_only_pass :
  forall s p, p_fold p = true \/ p_stack p = 0 -> available_actions s p = [APass].
Proof. exact offers_pass_only. Qed.
Print Assumptions C11_folded_or_allin_only_pass.

Theorem C11_allin_always :
  forall s p, p_fold p = false -> p_stack p <> 0 -> offers s p AAllin = true.
Proof. exact offers_allin. Qed.
Print Assumptions C11_allin_always.

Theorem C11_fold_iff_facing_wager :
  forall s p, p_fold p = false -> p_stack p <> 0 -> offers s p AFold = (p_wager p <? st_cw s).
Proof. exact offers_fold. Qed.
Print Assumptions C11_fold_iff_facing_wager.

Theorem C11_check_iff_not_facing :
  forall s p, p_fold p = false -> p_stack p <> 0 -> offers s p ACheck = negb (p_wager p <? st_cw s).
Proof. exact offers_check. Qed.
Print Assumptions C11_check_iff_not_facing.

Theorem C11_call :
  forall s p, p_fold p = false -> p_stack p <> 0 ->
    offers s p ACall = (p_wager p <? st_cw s) && (st_cw s <? p_initial p).
Proof. exact offers_call. Qed.
Print Assumptions C11_call.

Theorem C11_bet :
  forall s p, p_fold p = false -> p_stack p <> 0 ->
    offers s p ABet = negb (p_wager p <? st_cw s) && (st_minibet s <=? p_initial p) && (st_cw s =? 0).
Proof. exact offers_bet. Qed.
Print Assumptions C11_bet.

Theorem C11_raise :
  forall s p, p_fold p = false -> p_stack p <> 0 ->
    offers s p ARaise =
    ((p_wager p <? st_cw s) && (st_cw s <? p_initial p) && (st_cw s + st_prs s <? p_initial p))
    || (negb (p_wager p <? st_cw s) && (st_minibet s <=? p_initial p) && negb (st_cw s =? 0)).
Proof. exact offers_raise. Qed.
Print Assumptions C11_raise.

Theorem C11_pass_pay_never_for_live_seat :
  forall s p, p_fold p = false -> p_stack p <> 0 -> offers s p APass = false /\ offers s p APay = false.
Proof. intros s p H1 H2. split; [exact (offers_pass s p H1 H2)|exact (offers_pay s p H1 H2)]. Qed.
Print Assumptions C11_pass_pay_never_for_live_seat.

(* in every reachable state where a player is asked to act, the offer he holds is this table
   evaluated on the current wager to match, minimum raise, minimum bet and his own chips *)
From PF Require Import ProofsInv ProofsOffers.
Theorem C11_offer_is_the_table :
  forall c deck g ops,
    cfg_ok c -> create c deck = (g, Ok) ->
    let s := run g ops in
    st_event (g_st s) = EvRoundStarted ->
    p_allowed (get_p s (st_cur (g_st s))) = available_actions (g_st s) (get_p s (st_cur (g_st s))).
Proof.
  intros c deck g ops Hc Hcr s He. destruct (reachable_inv c deck g ops Hc Hcr) as [_ HO].
  apply (oi_cur _ HO He).
Qed.
Print Assumptions C11_offer_is_the_table.
