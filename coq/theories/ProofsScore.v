(* ProofsScore.v — the strength of a hand still in play is positive (used by C02, engine side): every hand of
   two or of five distinct cards of the 52-card deck scores above zero under both shipped tables, one such
   selection is always among the candidates, and the reported strength is the maximum over the candidates. *)
From Coq Require Import Lia Permutation.
From PF Require Import Base Comb ModelEval SpecPoker ProofsBase ProofsSort ProofsEvalBasic ProofsEval.
From PF.Gen Require Import Consts.

(* ---------- the evaluator on two and on five cards ---------- *)
Definition deck52 : list card := flat_map (fun s => map (fun r => (s, r)) rank_list) card_suits.

Lemma valid_in_deck52 c : valid_card c -> In c deck52.
Proof.
  destruct c as [s r]. intros [Hs Hr]. unfold deck52. apply in_flat_map. exists s. split; [exact Hs|].
  apply in_map. apply in_rank_list. exact Hr.
Qed.

Definition pos5 (pr : list comb) : bool := forallb (fun cl => 0 <? snd (model_class pr cl)) classes.
Lemma pos5_standard : pos5 power_standard = true. Proof. vm_compute. reflexivity. Qed.
Lemma pos5_shortdeck : pos5 power_shortdeck = true. Proof. vm_compute. reflexivity. Qed.

Lemma five_cards_positive pr h : shipped pr -> hand52 h -> 0 < ps_score (calc_power pr h).
Proof.
  intros Hpr Hh.
  assert (Hp : pos5 pr = true) by (destruct Hpr as [->| ->]; [exact pos5_standard|exact pos5_shortdeck]).
  unfold pos5 in Hp. rewrite forallb_forall in Hp. specialize (Hp (class_of h) (class_in_classes h Hh)).
  apply Z.ltb_lt in Hp. pose proof (calc_power_class_of pr h) as E. rewrite <- E in Hp. exact Hp.
Qed.

Definition card_eqb (a b : card) : bool := (c_suit a =? c_suit b) && (c_rank a =? c_rank b).
Lemma card_eqb_false a b : a <> b -> card_eqb a b = false.
Proof.
  intros H. unfold card_eqb. destruct (c_suit a =? c_suit b) eqn:E1; [|reflexivity]. destruct (c_rank a =? c_rank b) eqn:E2; [|reflexivity].
  exfalso. apply H. apply card_eq; [apply Z.eqb_eq, E1|apply Z.eqb_eq, E2].
Qed.

Definition pos2 (pr : list comb) : bool :=
  forallb (fun a => forallb (fun b => card_eqb a b || (0 <? ps_score (calc_power pr [a; b]))) deck52) deck52.
Lemma pos2_standard : pos2 power_standard = true. Proof. vm_compute. reflexivity. Qed.
Lemma pos2_shortdeck : pos2 power_shortdeck = true. Proof. vm_compute. reflexivity. Qed.

Lemma two_cards_positive pr a b :
  shipped pr -> valid_card a -> valid_card b -> a <> b -> 0 < ps_score (calc_power pr [a; b]).
Proof.
  intros Hpr Ha Hb Hne.
  assert (Hp : pos2 pr = true) by (destruct Hpr as [->| ->]; [exact pos2_standard|exact pos2_shortdeck]).
  unfold pos2 in Hp. rewrite forallb_forall in Hp. specialize (Hp a (valid_in_deck52 a Ha)).
  rewrite forallb_forall in Hp. specialize (Hp b (valid_in_deck52 b Hb)).
  rewrite (card_eqb_false a b Hne) in Hp. cbn [orb] in Hp. apply Z.ltb_lt in Hp. exact Hp.
Qed.

(* ---------- the first cards are always one of the candidate selections ---------- *)
Lemma seq_in_subsets n : forall k, (k <= n)%nat -> In (seq 0 k) (subsets_spec n k).
Proof.
  induction n as [|n IH]; intros k Hk.
  - assert (k = 0)%nat by lia. subst k. left. reflexivity.
  - destruct k as [|k]; [left; reflexivity|]. cbn [subsets_spec]. apply in_or_app.
    destruct (Nat.eq_dec (S k) (S n)) as [E|E].
    + right. injection E as ->. apply in_map_iff. exists (seq 0 n). split; [|apply IH; lia].
      rewrite seq_S. reflexivity.
    + left. apply IH. lia.
Qed.

Lemma count_occ_nl_in s l : count_occ_nl s l = 1%nat -> In s l.
Proof.
  unfold count_occ_nl. intros H. destruct (filter (natlist_eqb s) l) as [|x t] eqn:E; [discriminate|].
  assert (Hx : In x (filter (natlist_eqb s) l)) by (rewrite E; now left).
  apply filter_In in Hx as [Hin Heq]. apply natlist_eqb_eq in Heq. subst x. exact Hin.
Qed.

Lemma skipn_nth_error {A} (cards : list A) : forall a x, nth_error cards a = Some x -> skipn a cards = x :: skipn (S a) cards.
Proof.
  induction cards as [|c cs IHc]; intros [|a] x En; try discriminate.
  - injection En as ->. reflexivity.
  - cbn [skipn]. apply IHc. exact En.
Qed.

Lemma pick_seq {A} (cards : list A) k : forall a, (a + k <= length cards)%nat ->
  pick cards (seq a k) = firstn k (skipn a cards).
Proof.
  induction k as [|k IH]; intros a Hlen; [reflexivity|].
  assert (Hlen' : (S a + k <= length cards)%nat) by lia.
  specialize (IH (S a) Hlen'). unfold pick in *. cbn [seq flat_map]. rewrite IH.
  destruct (nth_error cards a) as [x|] eqn:En.
  - rewrite (skipn_nth_error cards a x En). reflexivity.
  - apply nth_error_None in En. lia.
Qed.

Lemma prefix_candidate {A} (cards : list A) n :
  (1 <= n)%nat -> (length cards <= 9)%nat -> In (firstn n cards) (possible_combinations cards n).
Proof.
  intros Hn Hlen. unfold possible_combinations. destruct (Nat.leb (length cards) n) eqn:E.
  - apply Nat.leb_le in E. rewrite firstn_all2 by exact E. now left.
  - apply Nat.leb_gt in E.
    assert (Hle0 : (n <= length cards)%nat) by lia.
    destruct (gosper_complete (length cards) n Hlen Hn Hle0) as [_ Hc].
    assert (Hle : (n <= length cards)%nat) by lia.
    specialize (Hc (seq 0 n) (seq_in_subsets (length cards) n Hle)). apply count_occ_nl_in in Hc.
    unfold gosper_positions in Hc. apply in_map_iff in Hc as (v & Hv & Hin).
    apply in_map_iff. exists v. split; [|exact Hin]. rewrite Hv. rewrite pick_seq by lia. reflexivity.
Qed.

Definition first_selection {A} (board hole : list A) (req : nat) : list A :=
  match req with
  | O => firstn 5 (hole ++ board)
  | _ => firstn req hole ++ firstn (5 - req) board
  end.

Lemma first_selection_is_a_candidate {A} (board hole : list A) req :
  (req <= 4)%nat -> (length hole + length board <= 9)%nat ->
  In (first_selection board hole req) (all_combinations board hole req).
Proof.
  intros Hr Hlen. unfold first_selection, all_combinations. destruct req as [|r].
  - apply prefix_candidate; [lia|rewrite app_length; exact Hlen].
  - apply in_flat_map. exists (firstn (S r) hole). split; [apply prefix_candidate; lia|].
    apply in_map. apply prefix_candidate; lia.
Qed.

(* the reported strength is at least the strength of any candidate *)
Lemma best_power_at_least pr board hole req sel :
  In sel (all_combinations board hole req) ->
  exists b, best_power pr board hole req = Some b /\ ps_score (calc_power pr sel) <= ps_score b.
Proof.
  intros Hin. destruct (best_power pr board hole req) as [b|] eqn:E.
  - exists b. split; [reflexivity|]. apply (best_power_spec pr board hole req b E). exact Hin.
  - exfalso. unfold best_power in E. destruct (all_combinations board hole req); [contradiction|discriminate].
Qed.

(* ---------- a hand still in play scores above zero ---------- *)
Lemma firstn_incl {A} n (l : list A) x : In x (firstn n l) -> In x l.
Proof. revert l; induction n as [|n IH]; intros [|y t] H; simpl in *; try contradiction. destruct H as [->|H]; [now left|right; now apply IH]. Qed.

Lemma NoDup_app_l {A} (a b : list A) : NoDup (a ++ b) -> NoDup a.
Proof.
  induction a as [|x a IH]; intros H; [constructor|]. cbn [app] in H. inversion H as [|? ? Hx H2]; subst.
  constructor; [intros Hin; apply Hx; apply in_or_app; now left|apply IH; exact H2].
Qed.
Lemma NoDup_app_r {A} (a b : list A) : NoDup (a ++ b) -> NoDup b.
Proof. induction a as [|x a IH]; intros H; [exact H|]. cbn [app] in H. inversion H; subst. apply IH. assumption. Qed.

Lemma NoDup_firstn {A} n (l : list A) : NoDup l -> NoDup (firstn n l).
Proof. intros H. rewrite <- (firstn_skipn n l) in H. apply NoDup_app_l in H. exact H. Qed.

Lemma NoDup_app_firstn {A} (a b : list A) i j : NoDup (a ++ b) -> NoDup (firstn i a ++ firstn j b).
Proof.
  revert i. induction a as [|x a IH]; intros i H.
  - destruct i; cbn [firstn app] in *; apply NoDup_firstn; exact H.
  - destruct i as [|i]; [cbn [firstn app]; apply NoDup_firstn; cbn [app] in H; inversion H as [|? ? _ H2]; subst; apply NoDup_app_r in H2; exact H2|].
    cbn [firstn app] in *. inversion H as [|? ? Hx H2]; subst. constructor; [|apply IH; exact H2].
    intros Hin. apply Hx. apply in_app_or in Hin as [Hin|Hin]; apply in_or_app; [left|right]; eapply firstn_incl; exact Hin.
Qed.

Lemma Forall_app_firstn {A} (P : A -> Prop) (a b : list A) i j : Forall P (a ++ b) -> Forall P (firstn i a ++ firstn j b).
Proof.
  rewrite !Forall_forall. intros H x Hin. apply H. apply in_app_or in Hin as [Hin|Hin]; apply in_or_app; [left|right]; eapply firstn_incl; exact Hin.
Qed.

(* the first selection is two cards before the flop and five cards afterwards *)
Lemma few_cards_positive pr sel :
  shipped pr -> NoDup sel -> Forall valid_card sel -> (length sel = 2 \/ length sel = 5)%nat ->
  0 < ps_score (calc_power pr sel).
Proof.
  intros Hpr Hnd Hv [Hl|Hl].
  - destruct sel as [|a [|b [|? ?]]]; try discriminate Hl.
    inversion Hv as [|? ? Va Hv']; subst. inversion Hv' as [|? ? Vb _]; subst.
    apply two_cards_positive; try assumption. intros ->. inversion Hnd as [|? ? Hx _]; subst. apply Hx. now left.
  - apply five_cards_positive; [exact Hpr|]. split; [exact Hl|]. split; assumption.
Qed.

Theorem selection_positive pr (H B : list card) req :
  shipped pr -> NoDup (H ++ B) -> Forall valid_card (H ++ B) ->
  ((length H = 2 /\ req = 0) \/ (length H = 4 /\ req = 2))%nat ->
  (length B = 0 \/ 3 <= length B <= 5)%nat ->
  exists b, best_power pr B H req = Some b /\ 0 < ps_score b.
Proof.
  intros Hpr Hnd Hv Hvar HB.
  assert (Hcand : In (first_selection B H req) (all_combinations B H req))
    by (apply first_selection_is_a_candidate; lia).
  destruct (best_power_at_least pr B H req _ Hcand) as (b & Eb & Hle). exists b. split; [exact Eb|].
  assert (Hpos : 0 < ps_score (calc_power pr (first_selection B H req))); [|lia].
  apply few_cards_positive; [exact Hpr| | |].
  - destruct Hvar as [[_ ->]|[_ ->]]; cbn [first_selection].
    + apply NoDup_firstn. exact Hnd.
    + apply NoDup_app_firstn. exact Hnd.
  - destruct Hvar as [[_ ->]|[_ ->]]; cbn [first_selection].
    + rewrite Forall_forall in *. intros x Hin. apply Hv. eapply firstn_incl. exact Hin.
    + apply Forall_app_firstn. exact Hv.
  - destruct Hvar as [[HH ->]|[HH ->]]; cbn [first_selection].
    + rewrite firstn_length, app_length. lia.
    + rewrite app_length, !firstn_length. cbn [Nat.sub]. lia.
Qed.
