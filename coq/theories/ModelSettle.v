(* ModelSettle.v — model of package settlement (settlement.go, rank.go, level.go, pot.go). *)
From PF Require Import Base ModelPot.

Record rgroup := mkGroup { g_score : Z; g_members : list Z }.

Record linfo := mkLInfo {
  li_level : Z; li_wager : Z; li_total : Z;
  li_contribs : list Z;
  li_groups : list rgroup }.        (* rank.groups, first-seen order until sorted *)

Record potres := mkPotRes {
  pr_total : Z;
  pr_winners : list (Z * Z);         (* Winners: idx, withdraw — first-seen order *)
  pr_levels : list linfo }.

Record presult := mkPRes { r_idx : Z; r_final : Z; r_changed : Z }.

Record result := mkResult { res_players : list presult; res_pots : list potres }.

Definition result_empty : result := mkResult [] [].

Definition add_player (r : result) (idx bankroll : Z) : result :=
  mkResult (res_players r ++ [mkPRes idx bankroll 0]) (res_pots r).

Definition add_pot (r : result) (total : Z) (levels : list level) : result :=
  mkResult (res_players r)
           (res_pots r ++ [mkPotRes total []
              (map (fun l => mkLInfo (l_level l) (l_wager l) (l_total l) (l_contribs l) []) levels)]).

(* Rank.AddContributor *)
Fixpoint group_add (score idx : Z) (gs : list rgroup) : list rgroup :=
  match gs with
  | [] => [mkGroup score [idx]]
  | g :: t => if g_score g =? score then mkGroup score (g_members g ++ [idx]) :: t
              else g :: group_add score idx t
  end.

Definition linfo_update_score (idx score : Z) (li : linfo) : linfo :=
  if zmem idx (li_contribs li)
  then mkLInfo (li_level li) (li_wager li) (li_total li) (li_contribs li)
               (group_add score idx (li_groups li))
  else li.

Definition update_score (r : result) (idx score : Z) : result :=
  mkResult (res_players r)
    (map (fun p => mkPotRes (pr_total p) (pr_winners p)
                     (map (linfo_update_score idx score) (pr_levels p))) (res_pots r)).

(* Rank.Calculate: sort.Slice(groups, score descending) *)
Definition sort_groups (gs : list rgroup) : list rgroup :=
  isort (fun a b => g_score b <? g_score a) gs.

Definition winners_of (li : linfo) : list Z :=
  match sort_groups (li_groups li) with [] => [] | g :: _ => g_members g end.

Definition losers_of (li : linfo) : list Z :=
  match sort_groups (li_groups li) with [] => [] | _ :: t => flat_map g_members t end.

(* PotResult.UpdateWinner *)
Fixpoint update_winner (idx amount : Z) (ws : list (Z * Z)) : list (Z * Z) :=
  match ws with
  | [] => [(idx, amount)]
  | (i, w) :: t => if i =? idx then (i, w + amount) :: t else (i, w) :: update_winner idx amount t
  end.

Fixpoint player_add (idx withdraw : Z) (ps : list presult) : list presult :=
  match ps with
  | [] => []
  | p :: t => if r_idx p =? idx
              then mkPRes (r_idx p) (r_final p + withdraw) (r_changed p + withdraw) :: t
              else p :: player_add idx withdraw t
  end.

(* Result.Update on one pot's winner list and the player list *)
Definition upd (idx wager withdraw : Z) (st : list (Z * Z) * list presult) :=
  ((if 0 <? withdraw then update_winner idx (withdraw + wager) (fst st) else fst st),
   player_add idx withdraw (snd st)).

(* CalculateWinnerRewards with the round-robin offset; returns new state and offset *)
Fixpoint pay_winners (ws : list Z) (i count offset based remainder wager : Z)
         (st : list (Z * Z) * list presult) :=
  match ws with
  | [] => st
  | w :: t =>
      let extra := if ((i - offset mod count + count) mod count) <? remainder then 1 else 0 in
      pay_winners t (i + 1) count offset based remainder wager
                  (upd w wager (based + extra - wager) st)
  end.

Definition calc_level (li : linfo) (offset : Z) (st : list (Z * Z) * list presult) :=
  let ws := winners_of li in
  let count := zn (length ws) in
  let based := li_total li / count in
  let remainder := li_total li mod count in
  let st1 := pay_winners ws 0 count offset based remainder (li_wager li) st in
  let st2 := fold_left (fun st l => upd l (li_wager li) (- li_wager li) st) (losers_of li) st1 in
  (st2, offset + remainder).

Fixpoint calc_levels (ls : list linfo) (offset : Z) (st : list (Z * Z) * list presult) :=
  match ls with
  | [] => st
  | li :: t => let '(st', off') := calc_level li offset st in calc_levels t off' st'
  end.

Definition calc_pot (p : potres) (players : list presult) : potres * list presult :=
  let st := calc_levels (pr_levels p) 0 (pr_winners p, players) in
  (mkPotRes (pr_total p) (fst st) (pr_levels p), snd st).

Fixpoint calc_pots (ps : list potres) (players : list presult) : list potres * list presult :=
  match ps with
  | [] => ([], players)
  | p :: t => let '(p', pl') := calc_pot p players in
              let '(t', pl'') := calc_pots t pl' in (p' :: t', pl'')
  end.

Definition calculate (r : result) : result :=
  let '(ps, pl) := calc_pots (res_pots r) (res_players r) in mkResult pl ps.

(* The Go code divides by len(winners): a level nobody was scored on panics. *)
Definition calc_panics (r : result) : bool :=
  existsb (fun p => existsb (fun li => match li_groups li with [] => true | _ => false end)
                            (pr_levels p)) (res_pots r).

(* settle: what game.CalculateGameResults does with pots and (idx, bankroll, score) *)
Definition settle (pots : list pot) (players : list (Z * Z * Z)) : result :=
  let r0 := fold_left (fun r p => add_pot r (pt_total p) (pt_levels p)) pots result_empty in
  let r1 := fold_left (fun r x =>
                         update_score (add_player r (fst (fst x)) (snd (fst x)))
                                      (fst (fst x)) (snd x)) players r0 in
  calculate r1.

Definition settle_panics (pots : list pot) (players : list (Z * Z * Z)) : bool :=
  let r0 := fold_left (fun r p => add_pot r (pt_total p) (pt_levels p)) pots result_empty in
  let r1 := fold_left (fun r x =>
                         update_score (add_player r (fst (fst x)) (snd (fst x)))
                                      (fst (fst x)) (snd x)) players r0 in
  calc_panics r1.

(* ---- observations ---- *)
Definition obs_result (r : result) : obs :=
  [("ridx"%string, map r_idx (res_players r));
   ("rfinal"%string, map r_final (res_players r));
   ("rchanged"%string, map r_changed (res_players r));
   ("rpots"%string, flat_map (fun p => pr_total p :: zn (length (pr_winners p))
                                     :: flat_map (fun w => [fst w; snd w]) (pr_winners p))
                             (res_pots r))].

(* a direct case: vector of (idx, contribution, fold, bankroll, score) *)
Definition run_settle_case (inputs : list (Z * Z * bool * Z * Z)) : obs :=
  let ll := ll_of (map (fun x => match x with (i, c, f, _, _) => (i, c, f) end) inputs) in
  let pots := get_pots ll in
  let pls := map (fun x => match x with (i, _, _, b, s) => (i, b, s) end) inputs in
  if settle_panics pots pls then [("panic"%string, [1])]
  else ("panic"%string, [0]) :: obs_result (settle pots pls).
