def chk(pid, text, note, technique, design_ref):
    return {
        "property_id": pid,
        "quick_cmd": "./check %s --tier quick" % pid,
        "thorough_cmd": "./check %s --tier thorough" % pid,
        "evidence_file": "evidence/%s.json" % pid,
        "replay_cmd_template": "./check %s --replay {path}" % pid,
        "engine": "coq",
        "level_claimed": {"category": "proof", "text": text, "design_ref": design_ref},
        "level_note": note,
        "technique": technique,
    }

BASE_NOTE = ("Trusted: Coq 8.16.1 kernel (vm_compute in reflection proofs, no native_compute), no axioms; the hand-written "
             "Gallina model as a description of the Go code, checked on every run by differential execution against "
             "/repo (Go harness vs ExtrOcamlBasic-extracted runner) through the property's projection; tools/gen_consts; "
             "the Go oracles. ")

ENGINE = ("Theorems about the executable Gallina model of the engine (ModelGame.v: create/step/view/erase); the model is "
          "tied to /repo on every run by playing generated hands on the Go engine and on the extracted model and "
          "comparing this property's projection of the state after every operation, plus adversarial attempts "
          "(every seat x every action x boundary amounts) on JSON clones; an independent Go oracle states the property "
          "on the implementation's traces and supplies concrete replays. ")
SEAT = ("Theorems about the executable model of SeatManager (ModelSeat.v) for tables of any size and any history; tied to "
        "/repo by random histories and by the complete reachable graph for small tables (Go vs extracted model, every "
        "transition); independent Go oracle on the implementation. ")
REG = ("Theorems about the executable model of the regulator (ModelReg.v, float expressions as exact integer arithmetic, "
       "map-order choices as parameters); tied to /repo by random histories with an instruction-following environment "
       "(Go vs extracted model: counters, queue, every table record, every callback payload); independent Go oracle. ")
PURE = ("Theorems about the executable model of the package; tied to /repo by differential execution on generated and "
        "exhaustively enumerated inputs; independent Go oracle on the implementation's output. ")

PART = " What is proved so far and what is only tested is listed per property in DESIGN.md section 9."

CHECKS = [
    chk("C01", ENGINE + "Proved: every payment keeps the paying seat's chip identity and moves nobody else's chips." + PART,
        BASE_NOTE + "Amounts in Z (int64 = Z while the sum of bankrolls stays below 2^61).",
        "Coq proof over a Gallina model + differential correspondence with the Go code", "DESIGN.md §4 C01, §9"),
    chk("C02", PURE + "Settlement and pot models; the engine's showdowns are compared as well." + PART,
        BASE_NOTE + "Scores are positive exactly for the non-folded players.",
        "Coq proof over a Gallina model + differential correspondence with the Go code", "DESIGN.md §4 C02, §9"),
    chk("C03", PURE + "The evaluator model runs over constant tables regenerated from the Go source on every run." + PART,
        BASE_NOTE + "Hands are five distinct cards of the 52-card deck.",
        "Coq proof (reflection over the finite set of hand classes) + differential correspondence", "DESIGN.md §4 C03, §9"),
    chk("C04", ENGINE + "Proved for every state: a table operation in the wrong phase and any action the addressed seat was "
        "not offered are refused with the error and leave the state unchanged." + PART, BASE_NOTE,
        "Coq proof over a Gallina model + differential correspondence with the Go code", "DESIGN.md §4 C04, §9"),
    chk("C05", ENGINE + PART, BASE_NOTE,
        "Coq proof over a Gallina model + differential correspondence with the Go code", "DESIGN.md §4 C05, §9"),
    chk("C06", ENGINE + "Proved: a closed hand refuses every operation without change." + PART, BASE_NOTE,
        "Coq proof over a Gallina model + differential correspondence with the Go code", "DESIGN.md §4 C06, §9"),
    chk("C07", ENGINE + "Every operation is also run through table.NativeBackend from the serialised state and the two "
        "states are compared as JSON; a reflect-based schema pin guards new fields." + PART, BASE_NOTE + "encoding/json is modelled, not verified.",
        "Coq proof over a Gallina model + differential correspondence (in-memory vs JSON-rebuilt vs model)", "DESIGN.md §4 C07, §9"),
    chk("C08", SEAT + "Reported against known finding F11." + PART, BASE_NOTE,
        "Coq proof over a Gallina model + complete-graph correspondence for small tables", "DESIGN.md §4 C08, §9"),
    chk("C09", REG + "Proved: calls naming an unknown table and registrations after the deadline are refused without change." + PART,
        BASE_NOTE, "Coq proof over a Gallina model + differential correspondence with the Go code", "DESIGN.md §4 C09, §9"),
    chk("C10", PURE + "Proved: Gosper enumeration is complete for up to 9 cards; the reported hand is the evaluation of a "
        "candidate that no candidate out-scores." + PART, BASE_NOTE,
        "Coq proof over a Gallina model + differential correspondence with the Go code", "DESIGN.md §4 C10, §9"),
    chk("C11", ENGINE + "Proved: the offer table, clause by clause, for every state." + PART, BASE_NOTE,
        "Coq proof over a Gallina model + differential correspondence with the Go code", "DESIGN.md §4 C11, §9"),
    chk("C12", ENGINE + "Proved: raises below the wager to match (or to 0) and non-positive bets are refused without change." + PART,
        BASE_NOTE, "Coq proof over a Gallina model + differential correspondence with the Go code", "DESIGN.md §4 C12, §9"),
    chk("C13", ENGINE + "Reported against known finding F10 (blinds skipped when dealer=0, sb=0, bb>0)." + PART, BASE_NOTE,
        "Coq proof over a Gallina model + differential correspondence with the Go code", "DESIGN.md §4 C13, §9"),
    chk("C14", ENGINE + "Proved: shuffling (any sequence of swaps) only reorders." + PART, BASE_NOTE + "math/rand is modelled as an arbitrary swap sequence.",
        "Coq proof over a Gallina model + differential correspondence with the Go code", "DESIGN.md §4 C14, §9"),
    chk("C15", ENGINE + "Proved in full for every state and every viewer: no deck, no burned cards, hidden seats show neither "
        "hole cards nor evaluation, everything else is unchanged." + PART, BASE_NOTE + "The schema pin guards fields added later.",
        "Coq proof over a Gallina model + differential correspondence + JSON leak search", "DESIGN.md §4 C15, §9"),
    chk("C16",
        "Theorems about the executable model of pot.LevelList/GetPots for every contribution/fold vector in any "
        "insertion order; the model is tied to /repo by running both on generated and exhaustively enumerated "
        "vectors and comparing levels, pots and per-pot level lists; an independent Go oracle states the property "
        "on the implementation's output and supplies concrete replays." + PART,
        BASE_NOTE + "Eligible players of a pot are read as its non-folded entries (folded players are put back for display).",
        "Coq proof over a Gallina model + differential correspondence with the Go code", "DESIGN.md §4 C16, §9"),
    chk("C17", SEAT + PART, BASE_NOTE,
        "Coq proof over a Gallina model + complete-graph correspondence for small tables", "DESIGN.md §4 C17, §9"),
    chk("C18", SEAT + "Proved for every history: seated players = successful joins - successful leaves; join/leave refusals and "
        "effects. Partial on the schedule quantifier: each method is taken as atomic under sm.mu (supported by a goroutine "
        "stress run, not proved)." + PART, BASE_NOTE + "sync.RWMutex atomicity is modelled, not verified.",
        "Coq proof over a Gallina model + complete-graph correspondence + goroutine stress", "DESIGN.md §4 C18, §9"),
    chk("C19", REG + "Reported against known findings F12a/F12b (over-capacity hand-outs). Proved: nothing is handed out while "
        "pending; SyncState makes no callback." + PART, BASE_NOTE,
        "Coq proof over a Gallina model + differential correspondence with the Go code", "DESIGN.md §4 C19, §9"),
    chk("C20", REG + "Proved: a table that is told to break hands back its whole player count. The settling bound is tested "
        "(sweeps until quiet within 12), not proved." + PART, BASE_NOTE,
        "Coq proof over a Gallina model (safety half) + differential correspondence; liveness tested", "DESIGN.md §4 C20, §9"),
]

NOT_APPLICABLE = []

NOTES = ("All checks share one Coq development (coq/), one extracted runner and one Go harness; ./check <id> rebuilds what "
         "changed from /repo's working tree on every run. known_findings.json lists recorded defects; fixed entries suppress nothing.")
