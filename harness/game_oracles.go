package main

import (
	"encoding/json"
	"fmt"
	"math"
	"sort"
	"strings"

	pf "github.com/weedbox/pokerface"
)

// roundMonitor recomputes "who still owes an action" from the history, independently of the Acted flags
type roundMonitor struct {
	round        string
	turnSince    []bool // seat had a turn since the wager to match last went up
	sinceReopen  int    // accepted actions since the last wager increase or all-in
	bettingOpen  bool
	maxRound     int64
	// C12: the size of the last full bet or raise of the round, followed independently of the engine's
	// own bookkeeping (the big blind before any; a short all-in is not a raise and leaves it alone)
	fullRaise int64
	haveFull  bool
}

func alive(gs *pf.GameState) int {
	c := 0
	for _, p := range gs.Players {
		if !p.Fold {
			c++
		}
	}
	return c
}

func movable(gs *pf.GameState) int {
	c := 0
	for _, p := range gs.Players {
		if !p.Fold && p.StackSize > 0 {
			c++
		}
	}
	return c
}

func hasAct(p *pf.PlayerState, a string) bool {
	for _, x := range p.AllowedActions {
		if x == a {
			return true
		}
	}
	return false
}

// checkState: statements that must hold at every wait point (C01, C04, C11 table, C14)
func (h *hand) checkState() {
	gs := h.g.GetState()
	h.checkChips(gs, "C01", func(k, w string) { h.viol("C01", k, w) })
	ev := gs.Status.CurrentEvent
	// C04: exactly one player is offered actions during a betting round, nobody otherwise
	na := 0
	for _, p := range gs.Players {
		if len(p.AllowedActions) > 0 {
			na++
			if p.Idx != gs.Status.CurrentPlayer {
				h.viol("C04", "offered-to-seat-not-to-act", fmt.Sprintf("seat %d is offered %v, current is %d", p.Idx, p.AllowedActions, gs.Status.CurrentPlayer))
			}
		}
	}
	if ev == "RoundStarted" && na != 1 {
		h.viol("C04", "not-exactly-one-offered", fmt.Sprintf("%d seats are offered actions", na))
	}
	if ev != "RoundStarted" && na != 0 {
		h.viol("C04", "offered-outside-betting-round", fmt.Sprintf("%d seats are offered actions at %s", na, ev))
	}
	if ev == "RoundStarted" {
		h.checkActionTable(gs)
	}
	h.checkCards(gs)
	// C06: always one of the wait points
	if _, ok := eventCode[ev]; !ok || ev == "" {
		h.viol("C06", "not-a-wait-point", "event "+ev)
	}
}

func (h *hand) checkChips(gs *pf.GameState, prop string, viol func(kind, what string)) {
	var sw int64
	for _, p := range gs.Players {
		if p.Bankroll != p.StackSize+p.Wager+p.Pot {
			viol("bankroll-identity", fmt.Sprintf("seat %d: bankroll %d != stack %d + wager %d + pot %d", p.Idx, p.Bankroll, p.StackSize, p.Wager, p.Pot))
		}
		if p.StackSize < 0 || p.Wager < 0 || p.Pot < 0 {
			viol("negative-chips", fmt.Sprintf("seat %d: stack %d wager %d pot %d", p.Idx, p.StackSize, p.Wager, p.Pot))
		}
		if p.StackSize > p.Bankroll {
			viol("stack-above-bankroll", fmt.Sprintf("seat %d: stack %d bankroll %d", p.Idx, p.StackSize, p.Bankroll))
		}
		sw += p.Wager
	}
	if sw != gs.Status.CurrentRoundPot {
		viol("round-pot", fmt.Sprintf("round pot %d, wagers add to %d", gs.Status.CurrentRoundPot, sw))
	}
	ev := gs.Status.CurrentEvent
	if ev == "RoundClosed" || ev == "GameClosed" {
		var tot, put int64
		for _, p := range gs.Status.Pots {
			tot += p.Total
		}
		for _, p := range gs.Players {
			put += p.Pot + p.Wager
		}
		if tot != put {
			viol("pots-sum", fmt.Sprintf("published pots add to %d, players put in %d", tot, put))
		}
	}
}

// C11: the offer of the player to act fits the situation
func (h *hand) checkActionTable(gs *pf.GameState) {
	p := gs.Players[gs.Status.CurrentPlayer]
	cw := gs.Status.CurrentWager
	bad := func(k, w string) { h.viol("C11", k, w+fmt.Sprintf(" (seat %d offered %v; wager %d, to match %d, stack %d, min raise %d, min bet %d)", p.Idx, p.AllowedActions, p.Wager, cw, p.StackSize, gs.Status.PreviousRaiseSize, gs.Status.MiniBet)) }
	if p.Fold || p.StackSize == 0 {
		if len(p.AllowedActions) != 1 || !hasAct(p, "pass") {
			bad("folded-or-allin-seat-not-pass-only", "")
		}
		return
	}
	if hasAct(p, "pass") {
		bad("pass-offered-to-live-seat", "")
	}
	if !hasAct(p, "allin") {
		bad("allin-not-offered", "")
	}
	faces := p.Wager < cw
	if hasAct(p, "fold") != faces {
		bad("fold-offer", "")
	}
	if hasAct(p, "check") != !faces {
		bad("check-offer", "")
	}
	total := p.StackSize + p.Wager
	if faces && total > cw && !hasAct(p, "call") {
		bad("call-missing", "")
	}
	if hasAct(p, "call") && (!faces || !(total > cw)) {
		bad("call-in-opposite-situation", "")
	}
	if cw == 0 && total >= gs.Status.MiniBet && !hasAct(p, "bet") {
		bad("bet-missing", "")
	}
	if hasAct(p, "bet") && (cw != 0 || total < gs.Status.MiniBet) {
		bad("bet-in-opposite-situation", "")
	}
	if cw > 0 && total > cw+gs.Status.PreviousRaiseSize && total >= gs.Status.MiniBet && !hasAct(p, "raise") {
		bad("raise-missing", "")
	}
	if hasAct(p, "raise") && (cw == 0 || !(total > cw)) {
		bad("raise-in-opposite-situation", "")
	}
	// facing a wager, raise is for seats that hold more than the minimum raise (the whole stack is "allin")
	if hasAct(p, "raise") && faces && !(total > cw+gs.Status.PreviousRaiseSize) {
		bad("raise-in-opposite-situation", "holds no more than the minimum raise")
	}
}

// C14 at one state
func (h *hand) checkCards(gs *pf.GameState) {
	var all []string
	for _, p := range gs.Players {
		all = append(all, p.HoleCards...)
	}
	all = append(all, gs.Status.Burned...)
	all = append(all, gs.Status.Board...)
	bad := func(k, w string) { h.viol("C14", k, w) }
	if len(all) != gs.Status.CurrentDeckPosition {
		bad("dealt-count", fmt.Sprintf("%d cards on the table, deck position %d", len(all), gs.Status.CurrentDeckPosition))
	}
	seen := map[string]bool{}
	for _, c := range all {
		if seen[c] {
			bad("card-dealt-twice", c)
		}
		seen[c] = true
	}
	if gs.Status.CurrentDeckPosition <= len(gs.Meta.Deck) {
		for _, c := range gs.Meta.Deck[:gs.Status.CurrentDeckPosition] {
			if !seen[c] {
				bad("consumed-card-missing", c)
			}
		}
	}
	if !isPerm(gs.Meta.Deck, h.cfg.Shuffle) {
		bad("deck-changed", "the deck no longer holds the same cards")
	}
	rd := gs.Status.Round
	if rd != "" {
		for _, p := range gs.Players {
			if len(p.HoleCards) != gs.Meta.HoleCardsCount {
				bad("hole-card-count", fmt.Sprintf("seat %d has %d", p.Idx, len(p.HoleCards)))
			}
		}
	}
	wantBoard := map[string]int{"": 0, "preflop": 0, "flop": 3, "turn": 4, "river": 5}[rd]
	wantBurn := map[string]int{"": 0, "preflop": 0, "flop": 1, "turn": 2, "river": 3}[rd]
	if len(gs.Status.Board) != wantBoard || len(gs.Status.Burned) != wantBurn {
		bad("board-or-burn-count", fmt.Sprintf("round %q: board %d burned %d", rd, len(gs.Status.Board), len(gs.Status.Burned)))
	}
}

func isPrefix(a, b []string) bool {
	if len(a) > len(b) {
		return false
	}
	for i := range a {
		if a[i] != b[i] {
			return false
		}
	}
	return true
}

func chipsOf(p *pf.PlayerState) [5]int64 {
	return [5]int64{p.Bankroll, p.InitialStackSize, p.StackSize, p.Pot, p.Wager}
}

// expected blind of a seat: one blind per seat by the priority bb > sb > dealer
func expectedBlind(gs *pf.GameState, p *pf.PlayerState) int64 {
	m := gs.Meta
	switch {
	case m.Blind.BB > 0 && hasPos(p, "bb"):
		return m.Blind.BB
	case m.Blind.SB > 0 && hasPos(p, "sb"):
		return m.Blind.SB
	case m.Blind.Dealer > 0 && hasPos(p, "dealer"):
		return m.Blind.Dealer
	}
	return 0
}

// afterOp: transition statements (C04 order, C05, C06 streets, C11 effects, C12, C13, C14 monotone, C10)
func (h *hand) afterOp(pre, gs *pf.GameState, op GameOp, err error) {
	n := len(gs.Players)
	if err != nil {
		// a refused operation leaves the state exactly as it was
		a, b := cloneState(gs), cloneState(pre)
		a.UpdatedAt, b.UpdatedAt = 0, 0
		ja, _ := json.Marshal(a)
		jb, _ := json.Marshal(b)
		if string(ja) != string(jb) {
			h.viol("C04", "refused-operation-changed-state", fmt.Sprintf("op %+v err=%v", op, err))
		}
		return
	}
	h.checkState()
	ev, pev := gs.Status.CurrentEvent, pre.Status.CurrentEvent
	// ---- C14: cards once dealt never change
	for i, p := range gs.Players {
		if !isPrefix(pre.Players[i].HoleCards, p.HoleCards) {
			h.viol("C14", "hole-cards-changed", fmt.Sprintf("seat %d", i))
		}
	}
	if !isPrefix(pre.Status.Board, gs.Status.Board) || !isPrefix(pre.Status.Burned, gs.Status.Burned) {
		h.viol("C14", "board-or-burned-changed", "")
	}
	for i := range gs.Meta.Deck {
		if i < len(pre.Meta.Deck) && gs.Meta.Deck[i] != pre.Meta.Deck[i] {
			h.viol("C14", "deck-order-changed", "")
			break
		}
	}
	// ---- C06: streets run strictly preflop, flop, turn, river
	if roundCode[gs.Status.Round] < roundCode[pre.Status.Round] || roundCode[gs.Status.Round] > roundCode[pre.Status.Round]+1 {
		h.viol("C06", "street-order", fmt.Sprintf("%q -> %q", pre.Status.Round, gs.Status.Round))
	}
	// ---- C13
	if op.Code == 1 {
		for _, p := range gs.Players {
			e := gs.Meta.Ante
			if p.Bankroll < e {
				e = p.Bankroll
			}
			if p.Pot != e || p.Wager != 0 {
				h.viol("C13", "ante-amount", fmt.Sprintf("seat %d: pot %d wager %d, ante %d bankroll %d", p.Idx, p.Pot, p.Wager, gs.Meta.Ante, p.Bankroll))
			}
		}
		if gs.Status.CurrentWager != 0 {
			h.viol("C13", "ante-counts-toward-wager", fmt.Sprintf("wager to match %d after antes", gs.Status.CurrentWager))
		}
		var tot, put int64
		for _, p := range gs.Status.Pots {
			tot += p.Total
		}
		for _, p := range gs.Players {
			put += p.Pot
		}
		if tot != put {
			h.viol("C01", "pots-sum", fmt.Sprintf("after antes pots add to %d, players put in %d", tot, put))
		}
	}
	// the moment the preflop betting round is about to start (blinds phase over)
	if gs.Status.Round == "preflop" && ev == "ReadyRequested" && (op.Code == 2 || ((op.Code == 0 || op.Code == 1) && pre.Status.Round == "")) {
		m := gs.Meta
		skipped := op.Code != 2
		var mx int64
		wrong := ""
		for _, p := range gs.Players {
			b := expectedBlind(gs, p)
			if before := p.Bankroll - p.Pot; before < b {
				b = before
			}
			if p.Wager != b {
				wrong = fmt.Sprintf("seat %d %v posted %d, owes %d", p.Idx, p.Positions, p.Wager, b)
			}
			if p.Wager > mx {
				mx = p.Wager
			}
		}
		if wrong != "" {
			kind := "blind-amount"
			if skipped {
				kind = "blinds-skipped"
				if m.Blind.Dealer == 0 && m.Blind.SB == 0 && m.Blind.BB > 0 {
					kind = "blinds-skipped:dealer=0,sb=0,bb>0"
				}
			}
			h.viol("C13", kind, wrong)
		} else {
			if gs.Status.CurrentWager != mx {
				h.viol("C13", "wager-to-match-after-blinds", fmt.Sprintf("is %d, largest blind posted %d", gs.Status.CurrentWager, mx))
			}
			exp := m.Blind.BB
			if exp == 0 {
				exp = m.Blind.Dealer
			}
			if gs.Status.PreviousRaiseSize != exp && !skipped {
				h.viol("C13", "minimum-raise-after-blinds", fmt.Sprintf("is %d, want %d", gs.Status.PreviousRaiseSize, exp))
			}
		}
		mb := m.Blind.BB
		if m.Blind.Dealer > mb {
			mb = m.Blind.Dealer
		}
		if gs.Status.MiniBet != mb {
			h.viol("C13", "minimum-bet", fmt.Sprintf("is %d, want %d", gs.Status.MiniBet, mb))
		}
		h.flags["blinds-done"] = true
	}
	// ---- a betting round opens
	if ev == "RoundStarted" && pev != "RoundStarted" {
		h.mon = roundMonitor{round: gs.Status.Round, turnSince: make([]bool, n), bettingOpen: true, haveFull: true}
		if gs.Status.Round == "preflop" {
			h.mon.fullRaise = gs.Status.PreviousRaiseSize // checked against the blinds by the C13 oracle
		}
		first := gs.Status.CurrentPlayer
		want := -1
		if gs.Status.Round == "preflop" {
			for _, p := range gs.Players {
				if hasPos(p, "bb") {
					want = (p.Idx + 1) % n
				}
			}
		} else {
			for _, p := range gs.Players {
				if hasPos(p, "dealer") {
					want = (p.Idx + 1) % n
				}
			}
		}
		if want >= 0 && first != want {
			h.viol("C04", "first-to-act", fmt.Sprintf("%s: seat %d acts first, expected %d", gs.Status.Round, first, want))
		}
		if gs.Status.Round != "preflop" && movable(gs) < 2 {
			h.viol("C05", "betting-round-opened-with-fewer-than-two-stacks", fmt.Sprintf("%s with %d players holding chips", gs.Status.Round, movable(gs)))
		}
	}
	// ---- the betting round was closed by this operation (whatever it was)
	if ev == "RoundClosed" && pev != "RoundClosed" && alive(gs) >= 2 {
		for _, p := range gs.Players {
			if !p.Fold && p.StackSize > 0 && p.Wager < gs.Status.CurrentWager {
				h.viol("C05", "closed-while-player-owes-chips", fmt.Sprintf("%s closed by op %d: seat %d wagered %d of %d with %d behind", gs.Status.Round, op.Code, p.Idx, p.Wager, gs.Status.CurrentWager, p.StackSize))
			}
		}
	}
	// ---- a player action was accepted
	if op.Code >= 10 && pev == "RoundStarted" {
		actor := pre.Status.CurrentPlayer
		if op.Who >= 0 {
			actor = op.Who
		}
		h.actionEffects(pre, gs, op, actor)
		h.followFullRaise(pre, gs, actor)
		cwUp := gs.Status.CurrentWager > pre.Status.CurrentWager && gs.Status.Round == pre.Status.Round && pre.Status.CurrentEvent == "RoundStarted"
		wentAllin := pre.Players[actor].StackSize > 0 && gs.Players[actor].StackSize == 0
		if len(h.mon.turnSince) == n {
			if cwUp {
				for i := range h.mon.turnSince {
					h.mon.turnSince[i] = false
				}
			}
			h.mon.turnSince[actor] = true
			if cwUp || wentAllin {
				h.mon.sinceReopen = 0
			} else {
				h.mon.sinceReopen++
			}
			if ev == "RoundStarted" && h.mon.sinceReopen >= n {
				h.viol("C05", "round-open-after-a-full-lap", fmt.Sprintf("%d actions since the last wager increase or all-in, %d seats", h.mon.sinceReopen, n))
			}
		}
		if ev == "RoundStarted" {
			if gs.Status.CurrentPlayer != (actor+1)%n {
				h.viol("C04", "turn-not-clockwise", fmt.Sprintf("after seat %d it is seat %d's turn", actor, gs.Status.CurrentPlayer))
			}
		}
		if ev == "RoundClosed" {
			if alive(gs) >= 2 {
				for _, p := range gs.Players {
					if !p.Fold && p.StackSize > 0 {
						if p.Wager < gs.Status.CurrentWager {
							h.viol("C05", "closed-while-player-owes-chips", fmt.Sprintf("seat %d wagered %d of %d", p.Idx, p.Wager, gs.Status.CurrentWager))
						}
						if len(h.mon.turnSince) == n && !h.mon.turnSince[p.Idx] {
							h.viol("C05", "closed-before-player-had-a-turn", fmt.Sprintf("seat %d has not acted since the wager went to %d", p.Idx, gs.Status.CurrentWager))
						}
					}
				}
			}
		}
		if alive(gs) == 1 && ev != "RoundClosed" {
			h.viol("C05", "hand-continues-with-one-player", "event "+ev)
		}
		if gs.Status.CurrentWager < pre.Status.CurrentWager {
			h.viol("C12", "wager-to-match-went-down", fmt.Sprintf("%d -> %d", pre.Status.CurrentWager, gs.Status.CurrentWager))
		}
	}
	// ---- Next()
	if op.Code == 3 {
		if alive(pre) == 1 {
			if ev != "GameClosed" || len(gs.Status.Board) != len(pre.Status.Board) || gs.Status.CurrentDeckPosition != pre.Status.CurrentDeckPosition {
				h.viol("C05", "last-player-standing-not-ended-at-once", fmt.Sprintf("event %s, board %d -> %d", ev, len(pre.Status.Board), len(gs.Status.Board)))
			}
		} else if ev != "GameClosed" {
			if movable(gs) < 2 && ev != "RoundClosed" {
				h.viol("C05", "betting-round-opened-with-fewer-than-two-stacks", fmt.Sprintf("%s: event %s with %d players holding chips", gs.Status.Round, ev, movable(gs)))
			}
			if movable(gs) >= 2 && ev != "ReadyRequested" {
				h.viol("C06", "street-does-not-ask-for-ready", "event "+ev)
			}
		}
		if len(gs.Status.Board) > 0 && ev != "GameClosed" {
			h.checkBestHands(gs)
		}
	}
}

// C10 on every seat
func (h *hand) checkBestHands(gs *pf.GameState) {
	for _, p := range gs.Players {
		if p.Combination == nil {
			h.viol("C10", "no-hand-reported", fmt.Sprintf("seat %d", p.Idx))
			continue
		}
		in := bestIn{Table: h.cfg.Table, Req: gs.Meta.RequiredHoleCardsCount, Hole: p.HoleCards, Board: gs.Status.Board}
		oracleBest(h.o, in, p.Combination.Type, p.Combination.Cards, p.Combination.Power, h.replay())
	}
	h.flags["c10"] = true
}

// C11 / C12: what an accepted action did
func (h *hand) actionEffects(pre, gs *pf.GameState, op GameOp, actor int) {
	a := actionNames[op.Code-10]
	pp, p := pre.Players[actor], gs.Players[actor]
	cw0, cw1 := pre.Status.CurrentWager, gs.Status.CurrentWager
	// what was carried out is something the seat had been offered (a raise request may end as an all-in or,
	// at the level of the wager to match, as a call: each of them only when that action was on offer)
	if d := p.DidAction; a != "pass" && d != "" && !hasAct(pp, d) {
		h.viol("C04", "action-carried-out-that-was-not-offered", fmt.Sprintf("seat %d asked for %s, did %q, was offered %v", actor, a, d, pp.AllowedActions))
	}
	// nobody else's chips move (before the pots are collected at Next)
	for i := range gs.Players {
		if i != actor && chipsOf(pre.Players[i]) != chipsOf(gs.Players[i]) {
			h.viol("C11", "action-moved-another-seats-chips", fmt.Sprintf("%s by seat %d changed seat %d", a, actor, i))
		}
	}
	switch a {
	case "check", "fold", "pass":
		if chipsOf(pp) != chipsOf(p) || pre.Status.CurrentRoundPot != gs.Status.CurrentRoundPot || cw0 != cw1 {
			h.viol("C11", "check-fold-pass-moved-chips", a)
		}
	case "call":
		// level with the wager to match (a call tops up to one big blind when a short blind stands)
		want := cw0
		if gs.Meta.Blind.BB > want {
			want = gs.Meta.Blind.BB
		}
		if !(p.StackSize == 0 || (p.Wager == cw1 && p.Wager == want)) || p.Wager < pp.Wager {
			h.viol("C11", "call-not-level", fmt.Sprintf("seat %d wager %d, to match %d (was %d, big blind %d), stack %d", actor, p.Wager, cw1, cw0, gs.Meta.Blind.BB, p.StackSize))
		}
	case "bet":
		if op.Amt > 0 && op.Amt < pp.StackSize {
			if p.Wager != pp.Wager+op.Amt || cw1 != op.Amt || p.Wager != cw1 {
				h.viol("C11", "bet-not-exact", fmt.Sprintf("bet %d: wager %d, to match %d", op.Amt, p.Wager, cw1))
			}
			if gs.Status.PreviousRaiseSize != op.Amt {
				h.viol("C12", "minimum-raise-after-bet", fmt.Sprintf("bet %d, previous raise size %d", op.Amt, gs.Status.PreviousRaiseSize))
			}
		} else if op.Amt >= pp.StackSize {
			if p.StackSize != 0 || p.Wager != pp.InitialStackSize {
				h.viol("C11", "oversized-bet-not-allin", fmt.Sprintf("bet %d with %d behind", op.Amt, pp.StackSize))
			}
			if gs.Status.PreviousRaiseSize > pp.InitialStackSize {
				h.viol("C12", "minimum-raise-above-chips-bet", fmt.Sprintf("bet %d with %d behind set the minimum raise to %d", op.Amt, pp.StackSize, gs.Status.PreviousRaiseSize))
			}
		}
	case "allin":
		if p.StackSize != 0 || p.Wager != pp.InitialStackSize || p.Wager-pp.Wager != pp.StackSize {
			h.viol("C11", "allin-not-whole-stack", fmt.Sprintf("seat %d stack %d wager %d", actor, p.StackSize, p.Wager))
		}
	case "raise":
		if gs.Meta.Limit == "pot" {
			break
		}
		L := op.Amt
		prs := pre.Status.PreviousRaiseSize
		if L > cw0 && L < pp.InitialStackSize && L-cw0 >= prs {
			if cw1 != L || gs.Status.CurrentRaiser != actor || gs.Status.PreviousRaiseSize != L-cw0 || p.Wager != L {
				h.viol("C12", "legal-raise-not-exact", fmt.Sprintf("raise to %d (was %d, min raise %d): to match %d, raiser %d, new min %d, wager %d", L, cw0, prs, cw1, gs.Status.CurrentRaiser, gs.Status.PreviousRaiseSize, p.Wager))
			}
		}
		if L > cw0 && L-cw0 < prs && p.StackSize != 0 {
			h.viol("C12", "undersized-raise-carried-out", fmt.Sprintf("raise to %d lifts %d by less than %d and the player keeps %d", L, cw0, prs, p.StackSize))
		}
		// the same two statements against the last full bet or raise as followed by the harness
		if full := h.mon.fullRaise; h.mon.haveFull && full != prs {
			if L > cw0 && L < pp.InitialStackSize && L-cw0 >= full {
				if cw1 != L || gs.Status.CurrentRaiser != actor || gs.Status.PreviousRaiseSize != L-cw0 || p.Wager != L {
					h.viol("C12", "legal-raise-not-exact", fmt.Sprintf("raise to %d (was %d, last full raise %d, engine's minimum %d): to match %d, raiser %d, new min %d, wager %d", L, cw0, full, prs, cw1, gs.Status.CurrentRaiser, gs.Status.PreviousRaiseSize, p.Wager))
				}
			}
			if L > cw0 && L-cw0 < full && p.StackSize != 0 {
				h.viol("C12", "undersized-raise-carried-out", fmt.Sprintf("raise to %d lifts %d by less than the last full raise %d (engine's minimum %d) and the player keeps %d", L, cw0, full, prs, p.StackSize))
			}
		}
	}
}

// followFullRaise: the last full bet or raise of the round after an accepted action
func (h *hand) followFullRaise(pre, gs *pf.GameState, actor int) {
	if !h.mon.haveFull {
		return
	}
	pp, p := pre.Players[actor], gs.Players[actor]
	cw0, cw1 := pre.Status.CurrentWager, gs.Status.CurrentWager
	switch p.DidAction {
	case "bet":
		h.mon.fullRaise = p.Wager - pp.Wager
	case "raise":
		if cw1 > cw0 {
			h.mon.fullRaise = cw1 - cw0
		}
	case "allin":
		if up := p.Wager - cw0; pp.StackSize > 0 && up >= h.mon.fullRaise {
			h.mon.fullRaise = up
		}
	}
}

// finish: the hand is closed
func (h *hand) finish() {
	gs := h.g.GetState()
	if gs.Result == nil {
		h.viol("C06", "closed-without-result", "")
		return
	}
	var sum int64
	var in []PotIn
	for _, r := range gs.Result.Players {
		p := gs.Players[r.Idx]
		sum += r.Changed
		if r.Final != p.Bankroll+r.Changed || r.Final < 0 || -r.Changed > p.Pot+p.Wager {
			h.viol("C01", "result-bounds", fmt.Sprintf("seat %d: final %d changed %d bankroll %d put in %d", r.Idx, r.Final, r.Changed, p.Bankroll, p.Pot+p.Wager))
		}
	}
	if sum != 0 {
		h.viol("C01", "result-not-zero-sum", fmt.Sprintf("%d", sum))
	}
	nonTrivial := false
	for _, p := range gs.Players {
		x := PotIn{Idx: p.Idx, Wager: p.Pot + p.Wager, Fold: p.Fold, Bankroll: p.Bankroll}
		if !p.Fold && p.Combination != nil {
			x.Score = p.Combination.Power
		}
		in = append(in, x)
	}
	oracleSettle(h.o, "C02", in, gs.Result, h.replay())
	contrib := map[int]int64{}
	fold := map[int]bool{}
	for _, x := range in {
		contrib[x.Idx] = x.Wager
		if x.Fold {
			fold[x.Idx] = true
		}
	}
	oraclePots(h.o, "C16", gs.Status.Pots, contrib, fold, h.replay())
	if alive(gs) >= 2 {
		if len(gs.Status.Board) != 5 {
			h.viol("C05", "showdown-on-short-board", fmt.Sprintf("%d board cards", len(gs.Status.Board)))
		}
		h.checkBestHands(gs)
		nonTrivial = true
	}
	// statistics / non-triviality
	o := h.o
	canon := fmt.Sprint(h.cfg, h.ops)
	allins, folds := 0, 0
	for _, p := range gs.Players {
		if p.StackSize == 0 {
			allins++
		}
		if p.Fold {
			folds++
		}
	}
	o.Stat(fmt.Sprintf("game.seats=%d", len(gs.Players)))
	o.Stat("game.closed-at-" + gs.Status.Round)
	o.StatN("game.ops", len(h.ops))
	if allins > 0 {
		o.Stat("game.with-allin")
	}
	if len(gs.Status.Pots) > 1 {
		o.Stat("game.with-side-pots")
	}
	ties := false
	for _, pr := range gs.Result.Pots {
		if len(pr.Winners) > 1 {
			ties = true
		}
	}
	if ties {
		o.Stat("game.split-pot")
	}
	if nonTrivial {
		o.Stat("game.showdown")
	}
	for _, p := range []string{"C01", "C04", "C05", "C06", "C07", "C11", "C12", "C13", "C14", "C15"} {
		if allins > 0 || folds > 0 || nonTrivial {
			o.Distinct(p, canon)
		}
	}
	if nonTrivial {
		o.Distinct("C02", canon)
		o.Distinct("C10", canon)
		o.Distinct("C16", canon)
	}
	if len(h.ops) <= 14 {
		for _, p := range []string{"C01", "C02", "C04", "C05", "C06", "C07", "C10", "C11", "C12", "C13", "C14", "C15"} {
			o.Sample(p, h.replay())
		}
	}
}

// ---------- probing: every seat x every action x the amount set, and the table operations, on JSON clones ----------
func amountSet(gs *pf.GameState, p *pf.PlayerState) []int64 {
	cw, prs := gs.Status.CurrentWager, gs.Status.PreviousRaiseSize
	set := []int64{math.MinInt64, -3, -1, 0, 1, cw - 1, cw, cw + 1, cw + prs - 1, cw + prs, p.StackSize - 1, p.StackSize, p.StackSize + 1,
		p.InitialStackSize - 1, p.InitialStackSize, p.InitialStackSize + 1, math.MaxInt64}
	seen := map[int64]bool{}
	var out []int64
	for _, x := range set {
		if !seen[x] {
			seen[x] = true
			out = append(out, x)
		}
	}
	return out
}

func (h *hand) probe() {
	gs := h.g.GetState()
	h.probeViews(gs)
	if h.probeP < 1 && h.rng.Float64() >= h.probeP {
		return
	}
	raw, _ := json.Marshal(gs)
	mk := func() *pf.GameState {
		var st pf.GameState
		json.Unmarshal(raw, &st)
		return &st
	}
	canon := func(st *pf.GameState) string {
		st.UpdatedAt = 0
		b, _ := json.Marshal(st)
		return string(b)
	}
	before := canon(mk())
	ev := gs.Status.CurrentEvent
	expected := map[string]int{"ReadyRequested": 0, "AnteRequested": 1, "BlindsRequested": 2, "RoundClosed": 3}
	var ops []GameOp
	for c := 0; c <= 3; c++ {
		ops = append(ops, GameOp{c, -1, 0})
	}
	ops = append(ops, GameOp{17, -1, 5})
	for i, p := range gs.Players {
		full := i == gs.Status.CurrentPlayer || h.rng.Intn(3) == 0
		for a := 0; a <= 4; a++ {
			ops = append(ops, GameOp{10 + a, i, 0})
		}
		amts := []int64{-3, 0, 1, gs.Status.CurrentWager + gs.Status.PreviousRaiseSize, math.MaxInt64}
		if full {
			amts = amountSet(gs, p)
		}
		for _, x := range amts {
			ops = append(ops, GameOp{15, i, x}, GameOp{16, i, x})
		}
		ops = append(ops, GameOp{17, i, 3})
	}
	// the game-level entry points act for the current player
	for a := 0; a <= 4; a++ {
		ops = append(ops, GameOp{10 + a, -1, 0})
	}
	var reuse *pf.GameState
	for _, op := range ops {
		legal := false
		if e, ok := expected[ev]; ok && op.Code == e && op.Code <= 3 {
			legal = true
		}
		if ev == "AnteRequested" && gs.Meta.Ante == 0 {
			legal = false
		}
		if ev == "RoundStarted" && op.Code >= 10 {
			who := op.Who
			if who < 0 {
				who = gs.Status.CurrentPlayer
			}
			if hasAct(gs.Players[who], actionNames[op.Code-10]) {
				legal = true
			}
		}
		// a clone is reused for as long as the attempts made on it left it byte-identical
		if reuse == nil {
			reuse = mk()
		}
		x := pf.NewPokerFace().NewGameFromState(reuse)
		err, pan := applyOp(x, op)
		if pan != nil {
			h.viol("C06", "engine-panic", fmt.Sprintf("probe %+v: %v", op, pan))
			h.o.Line(opCmd("game-try", op), "o=9")
			reuse = nil
			continue
		}
		after := canon(x.GetState())
		same := after == before
		if !same {
			reuse = nil
		}
		var ob Obs
		ob.K("same", b2i(same)).K("o", errGameCode(err))
		if err == nil {
			stateObsL(&ob, x.GetState(), false)
		}
		h.o.Line(opCmd("game-try", op), ob.String())
		h.o.Stat("game.probes")
		what := fmt.Sprintf("probe %+v at %s", op, ev)
		if !legal {
			if err == nil {
				h.o.Violate("C04", "illegal-operation-accepted", what, GameCase{h.cfg, append(append([]GameOp{}, h.ops...), op)})
				// C06: the hand waits for a single thing
				h.o.Violate("C06", "operation-other-than-the-expected-one-accepted", what, GameCase{h.cfg, append(append([]GameOp{}, h.ops...), op)})
			}
			if !same {
				h.o.Violate("C04", "illegal-operation-changed-state", what, GameCase{h.cfg, append(append([]GameOp{}, h.ops...), op)})
			}
			h.o.Stat("game.probes-illegal")
		} else {
			if err != nil && !same {
				h.o.Violate("C04", "refused-operation-changed-state", what, GameCase{h.cfg, append(append([]GameOp{}, h.ops...), op)})
			}
			if err == nil {
				rep := GameCase{h.cfg, append(append([]GameOp{}, h.ops...), op)}
				h.checkChips(x.GetState(), "C12", func(k, w string) { h.o.Violate("C12", k, what+": "+w, rep) })
				if op.Code >= 15 && op.Code <= 16 {
					// C12: refused amounts
					cw := gs.Status.CurrentWager
					if op.Code == 16 && (op.Amt < cw || op.Amt == 0) {
						h.o.Violate("C12", "raise-below-current-wager-accepted", what, rep)
					}
					if op.Code == 15 && op.Amt <= 0 {
						h.o.Violate("C12", "non-positive-bet-accepted", what, rep)
					}
				}
				h.o.Stat("game.probes-legal-accepted")
			}
			if op.Code == 16 && err == nil && gs.Meta.Limit != "pot" {
				who := op.Who
				if who < 0 {
					who = gs.Status.CurrentPlayer
				}
				pre := cloneState(gs)
				h2 := &hand{o: h.o, cfg: h.cfg, ops: append(append([]GameOp{}, h.ops...), op), flags: map[string]bool{}}
				h2.mon.fullRaise, h2.mon.haveFull = h.mon.fullRaise, h.mon.haveFull
				h2.actionEffects(pre, x.GetState(), op, who)
			}
			if op.Code == 15 && err == nil {
				who := op.Who
				if who < 0 {
					who = gs.Status.CurrentPlayer
				}
				pre := cloneState(gs)
				h2 := &hand{o: h.o, cfg: h.cfg, ops: append(append([]GameOp{}, h.ops...), op), flags: map[string]bool{}}
				h2.mon.fullRaise, h2.mon.haveFull = h.mon.fullRaise, h.mon.haveFull
				h2.actionEffects(pre, x.GetState(), op, who)
			}
		}
	}
	if canon(cloneState(gs)) != before {
		h.viol("C07", "probing-clones-modified-the-original", "")
	}
}

// ---------- C15: views ----------
func expectedView(gs *pf.GameState, viewer int) *pf.GameState {
	return expectedViewOf(cloneState(gs), viewer, gs.Status.CurrentEvent == "GameClosed")
}

// expectedViewOf edits c (a private copy) into what the viewer may see
func expectedViewOf(c *pf.GameState, viewer int, closed bool) *pf.GameState {
	c.Meta.Deck = []string{}
	c.Status.Burned = []string{}
	for _, p := range c.Players {
		if p.Idx == viewer {
			continue
		}
		if !closed || p.Fold {
			p.HoleCards = []string{}
			p.Combination = nil
		}
	}
	return c
}

func (h *hand) probeViews(gs *pf.GameState) {
	n := len(gs.Players)
	closed := gs.Status.CurrentEvent == "GameClosed"
	emit := map[int]bool{-1: true, h.rng.Intn(n): true}
	raw, _ := json.Marshal(gs)
	for v := -1; v < n; v++ {
		c := &pf.GameState{}
		json.Unmarshal(raw, c)
		if v < 0 {
			c.AsObserver()
		} else {
			c.AsPlayer(v)
		}
		b, _ := json.Marshal(c)
		txt := string(b)
		visible := map[string]bool{}
		for _, x := range gs.Status.Board {
			visible[x] = true
		}
		for _, p := range gs.Players {
			if p.Idx == v || (closed && !p.Fold) {
				for _, x := range p.HoleCards {
					visible[x] = true
				}
			}
		}
		for _, card := range gs.Meta.Deck {
			if !visible[card] && strings.Contains(txt, "\""+card+"\"") {
				h.viol("C15", "hidden-card-in-view", fmt.Sprintf("viewer %d sees %s at %s", v, card, gs.Status.CurrentEvent))
				break
			}
		}
		if len(c.Meta.Deck) != 0 || len(c.Status.Burned) != 0 {
			h.viol("C15", "deck-or-burned-in-view", fmt.Sprintf("viewer %d", v))
		}
		for _, p := range c.Players {
			hidden := p.Idx != v && (!closed || p.Fold)
			if hidden && p.Combination != nil {
				h.viol("C15", "hand-evaluation-in-view", fmt.Sprintf("viewer %d sees the evaluation of seat %d", v, p.Idx))
			}
		}
		ec := &pf.GameState{}
		json.Unmarshal(raw, ec)
		e, _ := json.Marshal(expectedViewOf(ec, v, closed))
		if txt != string(e) {
			h.viol("C15", "view-changed-public-or-own-information", fmt.Sprintf("viewer %d at %s", v, gs.Status.CurrentEvent))
		}
		if emit[v] {
			var ob Obs
			stateObsL(&ob, c, false)
			h.o.Line(fmt.Sprintf("game-view %d", v), ob.String())
		}
	}
	h.o.Stat("game.view-states")
}

func normJSON(s string) string {
	var v interface{}
	json.Unmarshal([]byte(s), &v)
	var norm func(x interface{}) interface{}
	norm = func(x interface{}) interface{} {
		switch t := x.(type) {
		case map[string]interface{}:
			for k, y := range t {
				if y == nil {
					delete(t, k)
				} else if l, ok := y.([]interface{}); ok && len(l) == 0 {
					delete(t, k)
				} else {
					t[k] = norm(y)
				}
			}
			return t
		case []interface{}:
			for i := range t {
				t[i] = norm(t[i])
			}
			return t
		}
		return x
	}
	b, _ := json.Marshal(norm(v))
	return string(b)
}

// ---------- exhaustive small scopes: every action tree for 2-3 seats with stacks <= scope ----------
func gameTrees(o *Out, scope int) int {
	cases := 0
	deck := deckOf(false)
	for n := 2; n <= 3; n++ {
		banks := make([]int64, n)
		var rec func(i int)
		rec = func(i int) {
			if i == n {
				for _, ante := range []int64{0, 1} {
					for _, bb := range []int64{1, 2} {
						cfg := GameCfg{Bank: append([]int64{}, banks...), Ante: ante, SB: 1, BB: bb, Limit: "no", Hole: 2, Dealer: 0, Shuffle: deck}
						h := startHand(o, cfg, nil, 0)
						if h == nil {
							continue
						}
						cases += treeWalk(o, h, 0)
					}
				}
				return
			}
			for b := int64(1); b <= int64(scope); b++ {
				banks[i] = b
				rec(i + 1)
			}
		}
		rec(0)
	}
	return cases
}

// treeWalk explores every continuation from the current state of h (depth-first, on JSON clones)
func treeWalk(o *Out, h *hand, depth int) int {
	gs := h.g.GetState()
	h.checkStateNoViews()
	if gs.Status.CurrentEvent == "GameClosed" {
		h.finish()
		return 1
	}
	if depth > 200 {
		h.viol("C06", "no-termination", "action tree deeper than 200")
		return 1
	}
	var ops []GameOp
	switch gs.Status.CurrentEvent {
	case "ReadyRequested":
		ops = []GameOp{{0, -1, 0}}
	case "AnteRequested":
		ops = []GameOp{{1, -1, 0}}
	case "BlindsRequested":
		ops = []GameOp{{2, -1, 0}}
	case "RoundClosed":
		ops = []GameOp{{3, -1, 0}}
	case "RoundStarted":
		p := gs.Players[gs.Status.CurrentPlayer]
		acts := append([]string{}, p.AllowedActions...)
		sort.Strings(acts)
		for _, a := range acts {
			switch a {
			case "bet":
				for x := int64(1); x <= p.StackSize+1; x++ {
					ops = append(ops, GameOp{15, -1, x})
				}
			case "raise":
				for x := gs.Status.CurrentWager + 1; x <= p.InitialStackSize+1; x++ {
					ops = append(ops, GameOp{16, -1, x})
				}
			default:
				for i, nme := range actionNames {
					if nme == a {
						ops = append(ops, GameOp{10 + i, -1, 0})
					}
				}
			}
		}
	}
	if len(ops) == 0 {
		h.viol("C06", "stuck", "nothing to do at "+gs.Status.CurrentEvent)
		return 1
	}
	leaves := 0
	if len(ops) > 1 {
		o.Line("game-push", "ok=1")
	}
	saved := cloneStateFull(gs)
	savedOps := append([]GameOp{}, h.ops...)
	savedTwin := h.twin
	savedMon := h.mon
	savedMon.turnSince = append([]bool{}, h.mon.turnSince...) // own copy: the first branch writes into h.mon's slice
	for k, op := range ops {
		if k > 0 {
			// restore implementation and model to the branching point
			h.g = pf.NewPokerFace().NewGameFromState(cloneStateFull(saved))
			h.ops = append([]GameOp{}, savedOps...)
			h.twin = savedTwin
			h.mon = savedMon
			h.mon.turnSince = append([]bool{}, savedMon.turnSince...)
			o.Line("game-restore", "ok=1")
		}
		err, pan := h.do(op)
		if pan {
			continue
		}
		if err != nil {
			h.viol("C06", "expected-step-refused", fmt.Sprintf("op %+v: %v", op, err))
			continue
		}
		leaves += treeWalk(o, h, depth+1)
	}
	if len(ops) > 1 {
		o.Line("game-drop", "ok=1")
	}
	return leaves
}

// cloneStateFull keeps what JSON drops (Pot.Levels): a deep copy through JSON plus the level lists
func cloneStateFull(gs *pf.GameState) *pf.GameState {
	c := cloneState(gs)
	for i, p := range gs.Status.Pots {
		if i < len(c.Status.Pots) {
			c.Status.Pots[i].Levels = p.Levels
		}
	}
	return c
}

func (h *hand) checkStateNoViews() {}
