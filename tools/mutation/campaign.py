#!/usr/bin/env python3
"""campaign.py <area> <out.jsonl> [workers] [limit] — mutation campaign: every syntactic mutant of the area that
builds and passes the stable test packages is run against the area's quick checks (private copies of /repo
and /verif under /tmp/mut, removed at the end).  A mutant is 'detected' when some check exits 1."""
import json, os, random, shutil, subprocess, sys, threading, queue

ROOT = "/verif"
CHECKS = {
    "engine": ["C07", "C01", "C04", "C05", "C06", "C11", "C12", "C13", "C14", "C15", "C02", "C10"],
    "pot": ["C16", "C01", "C02", "C07"],
    "settlement": ["C02", "C01", "C07"],
    "combination": ["C03", "C10", "C02", "C07"],
    "regulator": ["C09", "C19", "C20"],
    "seat": ["C18", "C08", "C17"],
}
ENV = dict(os.environ, GOFLAGS="-mod=mod", GOPROXY="off", GOSUMDB="off", GOTOOLCHAIN="local")


def sh(cmd, cwd, timeout, env=ENV):
    try:
        p = subprocess.run(cmd, cwd=cwd, shell=True, env=env, timeout=timeout, stdout=subprocess.PIPE, stderr=subprocess.STDOUT, text=True)
        return p.returncode, p.stdout
    except subprocess.TimeoutExpired:
        return 124, "timeout"


def apply(m, repo):
    src = open(os.path.join("/repo", m["file"])).read().split("\n")
    i = m["line"] - 1
    if m["op"] == "delete":
        src[i] = ""
    else:
        line = src[i]
        assert line[m["col"]:m["col"] + len(m["old"])] == m["old"], (m, line)
        src[i] = line[:m["col"]] + m["new"] + line[m["col"] + len(m["old"]):]
    open(os.path.join(repo, m["file"]), "w").write("\n".join(src))


def worker(w, area, q, out, lock):
    repo, vc = "/tmp/mut/r%d" % w, "/tmp/mut/v%d" % w
    shutil.rmtree(repo, ignore_errors=True)
    shutil.rmtree(vc, ignore_errors=True)
    subprocess.run("mkdir -p /tmp/mut && rsync -a --exclude=.git /repo/ %s/ && rsync -a --exclude=.git --exclude=work --exclude=replays --exclude=seeded %s/ %s/ && sed -i 's#=> /.*#=> %s#' %s/harness/go.mod"
                   % (repo, ROOT, vc, repo, vc), shell=True, check=True)
    while True:
        try:
            m = q.get_nowait()
        except queue.Empty:
            break
        res = dict(m)
        apply(m, repo)
        rc, o = sh("timeout -k 5 240 go build ./... && timeout -k 5 240 go build -tags verif ./regulator", repo, 600)
        if rc != 0:
            res["status"] = "no-build"
        else:
            rc, o = sh("timeout -k 5 240 go test -timeout 200s -count=1 ./combination ./pot ./regulator ./settlement ./testcases", repo, 300)
            if rc != 0:
                res["status"] = "killed-by-stable-tests"
            else:
                res["status"] = "survived"
                res["checks"] = {}
                for c in CHECKS[area]:
                    rc, o = sh("timeout -k 5 900 ./check %s" % c, vc, 1000, dict(ENV, VERIF_REPO=repo))
                    lines = [l for l in o.split("\n") if l.startswith(("VIOLATION", "BROKEN"))]
                    res["checks"][c] = {"rc": rc, "first": (lines[0][:300] if lines else "")}
                    if rc != 0:
                        res["status"] = "detected"
                        res["by"] = c
                        res["concrete"] = not any("no-failing-input-found" in l for l in lines if l.startswith("VIOLATION"))
                        break
        shutil.copy(os.path.join("/repo", m["file"]), os.path.join(repo, m["file"]))
        with lock:
            out.write(json.dumps(res) + "\n")
            out.flush()
    shutil.rmtree(repo, ignore_errors=True)
    shutil.rmtree(vc, ignore_errors=True)


def main():
    area, outp = sys.argv[1], sys.argv[2]
    workers = int(sys.argv[3]) if len(sys.argv) > 3 else 6
    limit = int(sys.argv[4]) if len(sys.argv) > 4 else 0
    p = subprocess.run([sys.executable, os.path.join(ROOT, "tools/mutation/mutate.py"), "/repo", area], stdout=subprocess.PIPE, text=True, check=True)
    muts = [json.loads(l) for l in p.stdout.split("\n") if l.strip()]
    random.Random(20261001).shuffle(muts)
    if limit:
        muts = muts[:limit]
    q = queue.Queue()
    for m in muts:
        q.put(m)
    lock = threading.Lock()
    with open(outp, "w") as out:
        ts = [threading.Thread(target=worker, args=(w, area, q, out, lock)) for w in range(workers)]
        for t in ts:
            t.start()
        for t in ts:
            t.join()


if __name__ == "__main__":
    main()
