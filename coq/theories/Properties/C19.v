(* C19 — no table is asked to hold more than its capacity. Pending phase. *)
From PF Require Import Base ModelReg ProofsRegBasic.

(* before the competition has started no callback is made: no table is opened, nobody assigned *)
Theorem C19_no_table_while_pending_add :
  forall st players, r_status (rs_reg st) = 0 ->
    rs_ev (fst (add_players st players)) = rs_ev st.
Proof.
  intros st players H. pose proof (add_pending_no_callbacks st players H) as P.
  destruct (add_players st players) as [st' o]. simpl. tauto.
Qed.
Print Assumptions C19_no_table_while_pending_add.

Theorem C19_no_table_while_pending_release :
  forall st players, r_status (rs_reg st) = 0 -> rs_ev (release_players st players) = rs_ev st.
Proof. exact release_pending_no_callbacks. Qed.
Print Assumptions C19_no_table_while_pending_release.

Theorem C19_sync_makes_no_callback :
  forall st id out, rs_ev (fst (fst (fst (sync_state st id out)))) = rs_ev st.
Proof. exact sync_no_callbacks. Qed.
Print Assumptions C19_sync_makes_no_callback.
