(* Extract.v — extraction of the executable models to OCaml.
   ExtrOcamlBasic only: bool, option, unit, list, prod, sumbool, sumor, comparison
   map to OCaml natives; nat, N, Z, positive, ascii and string stay Coq inductives. *)
From PF Require Import Run.
Require Extraction.
Require Import ExtrOcamlBasic.
Extraction Language OCaml.
Extraction "model.ml" interp rs_init.
