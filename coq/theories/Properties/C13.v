(* C13 — antes and blinds are posted in the right amounts. *)
From PF Require Import Base ModelGame ProofsChips.

(* a forced payment adds exactly the amount, capped at what the player has, to the wager and
   nothing to the pot *)
Theorem C13_forced_payment_capped_at_stack :
  forall g i chips is_wager,
    (i < nplayers g)%nat -> seat_ok (get_p g i) ->
    p_wager (get_p (pay g i chips is_wager) i)
      = p_wager (get_p g i) + (if p_stack (get_p g i) <=? chips then p_stack (get_p g i) else chips)
    /\ p_pot (get_p (pay g i chips is_wager) i) = p_pot (get_p g i).
Proof. exact pay_wager. Qed.
Print Assumptions C13_forced_payment_capped_at_stack.

(* one blind per seat, by the priority big blind > small blind > dealer blind *)
Theorem C13_blind_priority :
  forall m p,
    blind_of m p =
    if (0 <? m_bbb m) && p_bb p then (m_bbb m, LBigBlind)
    else if (0 <? m_bsb m) && p_sb p then (m_bsb m, LSmallBlind)
    else if (0 <? m_bdealer m) && p_dealer p then (m_bdealer m, LDealerBlind)
    else (0, LDealerBlind).
Proof. reflexivity. Qed.
Print Assumptions C13_blind_priority.
