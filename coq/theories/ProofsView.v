(* ProofsView.v — a generic frame argument: a per-seat projection phi that none of the field
   setters used by an operation touches is left unchanged by that operation. Instantiated for the
   hole cards (ProofsCards.v). *)
From Coq Require Import Lia.
From PF Require Import Base ProofsBase Comb ModelPot ModelSettle ModelEval ModelGame ProofsGameBasic.

Section PlayerView.
  Context {T : Type} (phi : pstate -> T).
  Hypothesis Hallowed : forall p l, phi (p_set_allowed p l) = phi p.
  Hypothesis Hacted : forall p b, phi (p_set_acted p b) = phi p.
  Hypothesis Hdid : forall p d, phi (p_set_did p d) = phi p.
  Hypothesis Hfold : forall p b, phi (p_set_fold p b) = phi p.
  Hypothesis Hvpip : forall p b, phi (p_set_vpip p b) = phi p.
  Hypothesis Hchips : forall p a b c d, phi (p_set_chips p a b c d) = phi p.
  Hypothesis Hcomb : forall p c, phi (p_set_comb p c) = phi p.

  Definition gv (g : gstate) : list T := map phi (g_players g).

  Lemma gv_upd g i f : (forall p, phi (f p) = phi p) -> gv (upd_p g i f) = gv g.
  Proof.
    intros Hf. unfold gv, upd_p. simpl. revert i. induction (g_players g) as [|x t IH]; intros [|i]; simpl; auto.
    - now rewrite Hf.
    - now rewrite IH.
  Qed.
  Lemma gv_map g f : (forall p, phi (f p) = phi p) -> gv (map_p g f) = gv g.
  Proof. intros Hf. unfold gv, map_p. simpl. rewrite map_map. apply map_ext. exact Hf. Qed.
  Lemma gv_with_st g s : gv (with_st g s) = gv g. Proof. reflexivity. Qed.
  Lemma gv_set_event g e : gv (set_event g e) = gv g. Proof. reflexivity. Qed.
  Lemma gv_set_last g a t v : gv (set_last g a t v) = gv g. Proof. reflexivity. Qed.
  Lemma gv_update_pots g : gv (update_pots g) = gv g. Proof. reflexivity. Qed.
  Lemma gv_reset_round_status g : gv (reset_round_status g) = gv g. Proof. reflexivity. Qed.

  Lemma gv_reset_all g : gv (reset_all g) = gv g.
  Proof. apply gv_map. intros p. now rewrite Hallowed, Hacted. Qed.
  Lemma gv_reset_acted g : gv (reset_acted g) = gv g.
  Proof. apply gv_map. intros p. apply Hacted. Qed.
  Lemma gv_reset_all_status g : gv (reset_all_status g) = gv g.
  Proof. apply gv_map. intros p. unfold reset_player_status. now rewrite Hdid, Hchips, Hallowed. Qed.
  Lemma gv_round_closed g : gv (round_closed g) = gv g.
  Proof. unfold round_closed. now rewrite gv_update_pots, gv_reset_all, gv_set_event. Qed.
  Lemma gv_set_current g i : gv (set_current g i) = gv g.
  Proof.
    unfold set_current. rewrite gv_upd by (intros p; apply Hallowed). rewrite gv_with_st.
    apply gv_upd. intros p. apply Hallowed.
  Qed.
  Lemma gv_become_raiser g i : gv (become_raiser g i) = gv g.
  Proof.
    unfold become_raiser. rewrite gv_upd by (intros p; apply Hacted). rewrite gv_reset_acted, gv_with_st.
    apply gv_upd. intros p. destruct (0 <? p_wager p); [apply Hvpip|reflexivity].
  Qed.
  Lemma gv_pay g i chips w : gv (pay g i chips w) = gv g.
  Proof.
    unfold pay. destruct (p_stack (get_p g i) <=? chips).
    - assert (E : forall g0, gv (upd_p g0 i (fun p => p_set_chips (p_set_did p DAllin) (p_initial p) 0 (p_pot p) (p_initial p))) = gv g0)
        by (intros g0; apply gv_upd; intros p; now rewrite Hchips, Hdid).
      destruct w.
      + match goal with |- context [if ?c then become_raiser ?g3 i else reset_acted ?g3] =>
          transitivity (gv g3); [destruct c; [apply gv_become_raiser|apply gv_reset_acted]|] end.
        match goal with |- context [if ?c then with_st _ _ else _] => destruct c end; rewrite ?gv_with_st, E; reflexivity.
      + rewrite E. reflexivity.
    - assert (E : forall g0 a b c d, gv (upd_p g0 i (fun p => p_set_chips p (a p) (b p) (c p) (d p))) = gv g0)
        by (intros g0 a b c d; apply gv_upd; intros p; apply Hchips).
      destruct (w && _).
      + rewrite gv_become_raiser, !gv_with_st. apply (E g (fun p => p_initial p) _ (fun p => p_pot p) (fun _ => _)).
      + rewrite gv_with_st. apply (E g (fun p => p_initial p) _ (fun p => p_pot p) (fun _ => _)).
  Qed.
  Lemma gv_request_action g : gv (request_action g) = gv g.
  Proof.
    unfold request_action.
    destruct (Nat.eqb (alive_count g) 1); [apply gv_round_closed|].
    destruct (Nat.eqb (movable_count g) 0); [apply gv_round_closed|].
    destruct (p_acted _); [apply gv_round_closed|apply gv_set_current].
  Qed.
  Lemma gv_resume g : gv (resume g) = gv g.
  Proof. unfold resume. destruct (st_event (g_st g)); try reflexivity; [apply gv_request_action|apply gv_round_closed]. Qed.
  Lemma gv_update_combs g : gv (update_combs g) = gv g.
  Proof.
    apply gv_map. intros p. unfold update_comb. destruct (p_comb p); [|reflexivity].
    destruct (best_power _ _ _ _); [apply Hcomb|reflexivity].
  Qed.
  Lemma gv_request_ready g : gv (request_ready g) = gv g.
  Proof. unfold request_ready. now rewrite gv_set_event, gv_reset_all. Qed.
  Lemma gv_prepare_round g : gv (prepare_round g) = gv g.
  Proof.
    unfold prepare_round. destruct (st_round (g_st g)); try apply gv_request_ready;
      destruct (Nat.leb (movable_count g) 1); try apply gv_round_closed; apply gv_request_ready.
  Qed.
  Lemma gv_find_bb_loop n g : gv (find_bb_loop n g) = gv g.
  Proof.
    revert g; induction n as [|n IH]; intros g; simpl; [reflexivity|].
    destruct (p_bb _); [apply gv_set_current|]. rewrite IH. apply gv_set_current.
  Qed.
  Lemma gv_start_round g : gv (start_round g) = gv g.
  Proof.
    unfold start_round. destruct (st_round (g_st (reset_all g))).
    all: try (rewrite gv_request_action, gv_set_event, gv_set_current; apply gv_reset_all).
    destruct (Nat.eqb (movable_count (reset_all g)) 0).
    - rewrite gv_round_closed. apply gv_reset_all.
    - rewrite gv_request_action, gv_set_event, gv_find_bb_loop, gv_set_current. apply gv_reset_all.
  Qed.
  Lemma gv_enter_street g r : gv (fst (enter_street g r)) = gv g.
  Proof.
    unfold enter_street. destruct (negb (deck_has g _)); [reflexivity|]. cbn [fst].
    now rewrite gv_prepare_round, gv_update_combs, gv_set_current.
  Qed.
  Lemma gv_game_completed g : gv (fst (game_completed g)) = gv g.
  Proof. unfold game_completed. destruct (settle_panics _ _); reflexivity. Qed.
  Lemma gv_ante_loop order : forall g, gv (fst (ante_loop order g)) = gv g.
  Proof.
    induction order as [|i t IH]; intros g; simpl; [reflexivity|].
    destruct (0 <? p_wager (get_p g i)); [reflexivity|]. rewrite IH, gv_set_last. apply gv_pay.
  Qed.
  Lemma gv_fold_pay_blind order : forall g, gv (fold_left pay_blind order g) = gv g.
  Proof.
    induction order as [|i t IH]; intros g; simpl; [reflexivity|]. rewrite IH. unfold pay_blind.
    destruct (blind_of _ _). rewrite gv_set_last. apply gv_pay.
  Qed.

  (* the player actions *)
  Lemma gv_act g i a x :
    gv (fst (match a with
             | APass => act_pass g i | AFold => act_fold g i | ACheck => act_check g i | ACall => act_call g i
             | AAllin => act_allin g i | ABet => act_bet g i x | ARaise => act_raise g i x | APay => act_pay g i x end)) = gv g.
  Proof.
    assert (Hcall : gv (fst (act_call g i)) = gv g).
    { unfold act_call. destruct (negb _); [reflexivity|]. cbn [fst].
      rewrite gv_resume, gv_set_last, gv_pay. apply gv_upd. intros p. now rewrite Hacted, Hdid. }
    assert (Hallin : gv (fst (act_allin g i)) = gv g).
    { unfold act_allin. destruct (negb _); [reflexivity|]. cbn [fst].
      rewrite gv_resume, gv_set_last, gv_pay.
      match goal with |- context [if ?c then _ else _] => destruct c end; rewrite ?gv_with_st; apply gv_upd; intros p; now rewrite Hacted, Hdid. }
    destruct a.
    - unfold act_pass. destruct (negb _); [reflexivity|]. cbn [fst]. rewrite gv_resume, gv_set_last. apply gv_upd. intros p. apply Hacted.
    - unfold act_fold. destruct (negb _); [reflexivity|]. cbn [fst]. rewrite gv_resume, gv_set_last. apply gv_upd. intros p. now rewrite Hacted, Hdid, Hfold.
    - unfold act_check. destruct (negb _); [reflexivity|]. cbn [fst]. rewrite gv_resume, gv_set_last. apply gv_upd. intros p. now rewrite Hacted, Hdid.
    - exact Hcall.
    - exact Hallin.
    - unfold act_bet. destruct (negb _); [reflexivity|]. destruct (x <=? 0); [reflexivity|].
      destruct (_ <=? x); [exact Hallin|]. cbn [fst].
      rewrite gv_resume, gv_set_last, gv_with_st, gv_pay. apply gv_upd. intros p. now rewrite Hacted, Hdid.
    - unfold act_raise. destruct (negb _); [reflexivity|]. destruct (_ || _); [reflexivity|].
      destruct (x =? _); [exact Hcall|]. destruct (_ || _); [exact Hallin|]. cbn [fst].
      rewrite gv_resume, gv_set_last, gv_pay, gv_with_st. apply gv_upd. intros p. now rewrite Hacted, Hdid.
    - unfold act_pay. destruct (negb _); [reflexivity|]. cbn [fst]. rewrite gv_resume, gv_set_last. apply gv_pay.
  Qed.

  (* dealing the hole cards, for a projection that does not read them *)
  Lemma gv_enter_preflop g : (forall p h, phi (p_set_hole p h) = phi p) -> gv (fst (enter_preflop g)) = gv g.
  Proof.
    intros Hh. unfold enter_preflop. destruct (negb (deck_has g _)); [reflexivity|].
    assert (G : forall ps deck h, map phi (deal_holes ps deck h) = map phi ps).
    { induction ps as [|p t IH]; intros deck h; simpl; [reflexivity|]. now rewrite Hh, IH. }
    destruct (_ && _); cbn [fst]; rewrite ?gv_prepare_round, ?gv_set_event, gv_update_combs; unfold gv; simpl; apply G.
  Qed.

  (* every operation *)
  Lemma gv_step g o : (forall p h, phi (p_set_hole p h) = phi p) -> gv (fst (step g o)) = gv g.
  Proof.
    intros Hh. destruct o as [| | | |who a x]; cbn [step].
    - unfold do_ready. destruct (negb _); [reflexivity|].
      destruct (st_round (g_st (reset_all g))); cbn [fst]; try (rewrite gv_start_round; apply gv_reset_all).
      destruct (0 <? _); cbn [fst]; [rewrite gv_set_event|rewrite gv_enter_preflop by exact Hh]; apply gv_reset_all.
    - unfold do_pay_ante. destruct (_ =? 0); [reflexivity|]. destruct (negb _); [reflexivity|].
      pose proof (gv_ante_loop (player_order g) g) as H. destruct (ante_loop (player_order g) g) as [g1 [|]]; cbn [fst] in *; [|exact H].
      rewrite gv_enter_preflop by exact Hh. rewrite gv_reset_round_status, gv_reset_all_status, gv_update_pots, gv_reset_all. exact H.
    - unfold do_pay_blinds. destruct (negb _); [reflexivity|]. cbn [fst].
      rewrite gv_prepare_round, gv_reset_all, gv_with_st. apply gv_fold_pay_blind.
    - unfold do_next. destruct (negb _); [reflexivity|].
      set (g0 := set_last g (-1) LNext 0). set (g1 := reset_all_status (reset_round_status g0)).
      assert (H1 : gv g1 = gv g) by (unfold g1, g0; now rewrite gv_reset_all_status, gv_reset_round_status, gv_set_last).
      set (guard := fun res : gstate * outcome => match res with (_, Panic) => (g, Panic) | x => x end).
      assert (Hgc : gv (fst (guard (game_completed g1))) = gv g).
      { unfold guard. pose proof (gv_game_completed g1) as H. destruct (game_completed g1) as [g2 o2]. cbn [fst] in H.
        destruct o2; cbn [fst]; try (rewrite H; exact H1); reflexivity. }
      assert (Hst : forall r, gv (fst (guard (enter_street g1 r))) = gv g).
      { intros r. unfold guard. pose proof (gv_enter_street g1 r) as H. destruct (enter_street g1 r) as [g2 o2]. cbn [fst] in H.
        destruct o2; cbn [fst]; try (rewrite H; exact H1); reflexivity. }
      destruct (st_round (g_st g0)); [reflexivity| | | |];
        destruct (Nat.eqb (alive_count g1) 1); try exact Hgc; apply Hst.
    - destruct (negb _); [reflexivity|]. apply gv_act.
  Qed.
End PlayerView.
