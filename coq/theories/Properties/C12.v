(* C12 — raise sizes and amounts. Refusals that need no invariant. *)
From PF Require Import Base ModelGame ProofsGameBasic ProofsChips.

Theorem C12_raise_below_wager_refused :
  forall g who x,
    (seat_of g who < nplayers g)%nat -> allowed g (seat_of g who) ARaise = true ->
    x = 0 \/ x < st_cw (g_st g) -> step g (OAct who ARaise x) = (g, ErrIllegalRaise).
Proof. exact raise_below_wager_refused. Qed.
Print Assumptions C12_raise_below_wager_refused.

Theorem C12_nonpositive_bet_refused :
  forall g who x, (seat_of g who < nplayers g)%nat -> x <= 0 -> step g (OAct who ABet x) = (g, ErrInvalidAction).
Proof. exact bet_nonpositive_refused. Qed.
Print Assumptions C12_nonpositive_bet_refused.
