(* ModelReg.v — model of regulator.regulator.
   Floating point expressions are rewritten as exact integer arithmetic (valid while
   all counts are below 2^26 and the player count is non-negative); the corner
   cases x/0 of the Go code are written out:  int(NaN) = int(+-Inf) = MinInt64 on
   amd64, comparisons with NaN are false.
   Map iteration order matters in getAvailableTable only: the table picked by each
   dispatch is a parameter (the choice list); when the list runs out or names a
   table that is not in need, the first table in need is used and the run is
   flagged.  Callbacks are assumed to succeed; requestTableFn returns fresh
   consecutive ids 1, 2, 3, ... *)
From PF Require Import Base.

Record rtable := mkT { t_id : Z; t_required : Z; t_pc : Z }.

Record reg := mkReg {
  r_max : Z; r_min : Z;
  r_pc : Z; r_tc : Z;
  r_status : Z;                   (* 0 pending, 1 normal, 2 after registration deadline *)
  r_queue : list Z;
  r_tables : list rtable;         (* in id order *)
  r_nextid : Z }.

Inductive revent :=
| EvRequest (id : Z) (players : list Z)     (* requestTableFn(players) returned id *)
| EvAssign (id : Z) (players : list Z).     (* assignPlayersFn(id, players) *)

Record rst := mkRst {
  rs_reg : reg;
  rs_ev : list revent;             (* callback calls, newest first *)
  rs_choices : list Z;
  rs_bad : bool }.

Definition reg_init (mx mn : Z) : reg := mkReg mx mn 0 0 0 [] [] 1.

Definition MININT : Z := - 2 ^ 63.

Definition set_tables (r : reg) (ts : list rtable) : reg :=
  mkReg (r_max r) (r_min r) (r_pc r) (r_tc r) (r_status r) (r_queue r) ts (r_nextid r).
Definition set_queue (r : reg) (q : list Z) : reg :=
  mkReg (r_max r) (r_min r) (r_pc r) (r_tc r) (r_status r) q (r_tables r) (r_nextid r).
Definition set_pc (r : reg) (pc : Z) : reg :=
  mkReg (r_max r) (r_min r) pc (r_tc r) (r_status r) (r_queue r) (r_tables r) (r_nextid r).
Definition set_status (r : reg) (st : Z) : reg :=
  mkReg (r_max r) (r_min r) (r_pc r) (r_tc r) st (r_queue r) (r_tables r) (r_nextid r).

Fixpoint find_table (id : Z) (ts : list rtable) : option rtable :=
  match ts with [] => None | t :: rest => if t_id t =? id then Some t else find_table id rest end.

Fixpoint map_table (id : Z) (f : rtable -> rtable) (ts : list rtable) : list rtable :=
  match ts with [] => [] | t :: rest => if t_id t =? id then f t :: rest else t :: map_table id f rest end.

(* int(math.Ceil(float64(pc) / float64(max))) *)
Definition required_tables (r : reg) : Z := (r_pc r + r_max r - 1) / r_max r.

(* int(math.Floor(float64(a) / float64(b))) *)
Definition ifloor_div (a b : Z) : Z := if b =? 0 then MININT else a / b.
Definition iceil_div (a b : Z) : Z := if b =? 0 then MININT else - ((- a) / b).

Definition low_water_count (r : reg) : Z :=
  let wl := ifloor_div (r_pc r) (required_tables r) in
  zn (length (filter (fun t => t_pc t <? wl) (r_tables r))).

(* lwl >= F  where lwl = calculateLowerWaterLevel() *)
Definition lower_level_ge (r : reg) (F : Z) : bool :=
  let wl := ifloor_div (r_pc r) (required_tables r) in
  let low := filter (fun t => t_pc t <=? wl) (r_tables r) in
  let high := filter (fun t => negb (t_pc t <=? wl)) (r_tables r) in
  let pcl := r_pc r - zsum (map t_pc high) in
  let nl := zn (length low) in
  if nl =? 0 then 0 <? pcl else F * nl <=? pcl.

(* requestPlayers / getPlayersFromWaitingQueue *)
Definition take_queue (r : reg) (count : Z) : list Z * reg :=
  let n := Z.to_nat count in
  (firstn n (r_queue r), set_queue r (skipn n (r_queue r))).

(* updateTableRequirements *)
Definition update_requirements (r : reg) : reg :=
  let rt := required_tables r in
  if rt =? zn (length (r_tables r)) then
    let wl := iceil_div (r_pc r) rt in
    set_tables r (map (fun t => if t_pc t <? wl then mkT (t_id t) (wl - t_pc t) (t_pc t) else t) (r_tables r))
  else r.

Definition first_in_need (ts : list rtable) : option rtable := find (fun t => 0 <? t_required t) ts.

(* dispatchPlayer: Some (remaining candidates) or None = ErrNoAvailableTable *)
Definition dispatch (st : rst) (cands : list Z) : option (list Z) * rst :=
  let r := rs_reg st in
  match first_in_need (r_tables r) with
  | None => (None, st)
  | Some dflt =>
      let '(t, choices', bad') :=
        match rs_choices st with
        | [] => (dflt, [], true)
        | c :: cs =>
            match find_table c (r_tables r) with
            | Some t => if 0 <? t_required t then (t, cs, rs_bad st) else (dflt, cs, true)
            | None => (dflt, cs, true)
            end
        end in
      let n := Z.to_nat (t_required t) in
      let picked := firstn n cands in
      let rest := skipn n cands in
      let k := zn (length picked) in
      let r' := set_tables r (map_table (t_id t) (fun t => mkT (t_id t) (t_required t - k) (t_pc t + k)) (r_tables r)) in
      (Some rest, mkRst r' (EvAssign (t_id t) picked :: rs_ev st) choices' bad')
  end.

Fixpoint dispatch_loop (fuel : nat) (st : rst) (cands : list Z) : list Z * rst :=
  match fuel, cands with
  | _, [] => ([], st)
  | O, _ => (cands, st)
  | S f, _ =>
      match dispatch st cands with
      | (None, st') => (cands, st')
      | (Some rest, st') => dispatch_loop f st' rest
      end
  end.

(* the for loop of allocateTables *)
Fixpoint alloc_loop (fuel : nat) (st : rst) (wl rt : Z) : rst :=
  match fuel with
  | O => st
  | S f =>
      let r := rs_reg st in
      if (r_min r <=? wl) && (r_tc r <? rt) then
        let ql := zn (length (r_queue r)) in
        let req := if (wl <? ql) && (ql <? r_max r) then ql else wl in
        let '(players, r1) := take_queue r req in
        match players with
        | [] => st
        | _ =>
            let id := r_nextid r1 in
            let k := zn (length players) in
            let t := mkT id (if k <? wl then wl - k else 0) k in
            let r2 := mkReg (r_max r1) (r_min r1) (r_pc r1) (r_tc r1 + 1) (r_status r1) (r_queue r1)
                            (r_tables r1 ++ [t]) (id + 1) in
            let wl' := ifloor_div (zn (length (r_queue r2))) (rt - r_tc r2) in
            alloc_loop f (mkRst r2 (EvRequest id players :: rs_ev st) (rs_choices st) (rs_bad st)) wl' rt
        end
      else st
  end.

Definition allocate_tables (st : rst) : rst :=
  let r := rs_reg st in
  let rt := required_tables r in
  if r_tc r =? 0 then
    if r_pc r <? r_min r then st
    else
      let w := ifloor_div (r_pc r) rt in
      if r_min r <=? w then alloc_loop (Z.to_nat rt) st w rt
      else
        let rt' := r_pc r / r_max r in
        alloc_loop (Z.to_nat rt') st (r_max r) rt'
  else if 0 <? r_tc r then alloc_loop (Z.to_nat rt) st (ifloor_div (r_pc r) rt) rt
  else alloc_loop (Z.to_nat rt) st (r_max r) rt.

Definition with_reg (st : rst) (r : reg) : rst := mkRst r (rs_ev st) (rs_choices st) (rs_bad st).

(* drainWaitingQueue *)
Definition drain (st : rst) : rst :=
  let r := rs_reg st in
  if (r_tc r =? 0) && (r_min r <=? zn (length (r_queue r))) then allocate_tables st
  else if 0 <? r_tc r then
    let cands := r_queue r in
    let '(c1, st1) := dispatch_loop (S (length cands)) st cands in
    let st2 := match c1 with [] => st1 | _ => with_reg st1 (update_requirements (rs_reg st1)) end in
    let '(c2, st3) := dispatch_loop (S (length c1)) st2 c1 in
    let st4 := with_reg st3 (set_queue (rs_reg st3) c2) in
    match c2 with [] => st4 | _ => allocate_tables st4 end
  else st.

Definition enter_queue (st : rst) (players : list Z) : rst :=
  let r := rs_reg st in
  let st1 := with_reg st (set_queue r (r_queue r ++ players)) in
  if r_status r =? 0 then st1 else drain st1.

Inductive reg_out := ROk | RErrNotFoundTable | RErrAfterDeadline.
Definition reg_out_code (o : reg_out) : Z :=
  match o with ROk => 0 | RErrNotFoundTable => 1 | RErrAfterDeadline => 2 end.

Definition add_players (st : rst) (players : list Z) : rst * reg_out :=
  let r := rs_reg st in
  if r_status r =? 2 then (st, RErrAfterDeadline)
  else
    let r1 := update_requirements (set_pc r (r_pc r + zn (length players))) in
    (enter_queue (with_reg st r1) players, ROk).

Definition do_set_status (st : rst) (status : Z) : rst :=
  let r := rs_reg st in
  if r_status r =? status then st
  else
    let st1 := with_reg st (set_status r status) in
    if (r_status r =? 0) && (status =? 1) then drain st1 else st1.

Definition break_table (r : reg) (id : Z) : reg :=
  mkReg (r_max r) (r_min r) (r_pc r) (r_tc r - 1) (r_status r) (r_queue r)
        (filter (fun t => negb (t_id t =? id)) (r_tables r)) (r_nextid r).

(* the release loop of SyncState: (picked, reg) *)
Fixpoint release_loop (n : nat) (r : reg) (id F : Z) (picked : Z) : Z * reg :=
  match n with
  | O => (picked, r)
  | S n' =>
      if lower_level_ge r F then (picked, r)
      else release_loop n' (set_tables r (map_table id (fun t => mkT (t_id t) (t_required t) (t_pc t - 1)) (r_tables r)))
                        id F (picked + 1)
  end.

(* SyncState(tableID, out): (release count, players handed out, outcome) *)
Definition sync_state (st : rst) (id out : Z) : rst * Z * list Z * reg_out :=
  let r := rs_reg st in
  match find_table id (r_tables r) with
  | None => (st, 0, [], RErrNotFoundTable)
  | Some t0 =>
      let r1 := set_tables (set_pc r (r_pc r - out))
                           (map_table id (fun t => mkT (t_id t) (t_required t) (t_pc t - out)) (r_tables r)) in
      let tpc := t_pc t0 - out in
      let rt := required_tables r1 in
      if (r_status r1 =? 2) && (r_pc r1 <=? r_max r1) && (rt <? r_tc r1)
      then (with_reg st (break_table r1 id), tpc, [], ROk)
      else if rt =? 0 then (with_reg st r1, 0, [], ROk)          (* waterLevel is NaN (or -Inf) *)
      else if tpc * rt <? r_pc r1 then
        if (2 <=? low_water_count r1) && (rt <? r_tc r1)
        then (with_reg st (break_table r1 id), tpc, [], ROk)
        else
          let count := r_pc r1 / rt - tpc in
          let '(players, r2) := take_queue r1 count in
          let k := zn (length players) in
          let still := count - k in
          let r3 := set_tables r2 (map_table id
                       (fun t => mkT (t_id t) (if 0 <? still then still else t_required t) (t_pc t + k))
                       (r_tables r2)) in
          (with_reg st r3, 0, players, ROk)
      else if r_pc r1 <? tpc * rt then
        let F := r_pc r1 / rt in
        let '(picked, r2) := release_loop (Z.to_nat (tpc - F)) r1 id F 0 in
        (with_reg st r2, picked, [], ROk)
      else (with_reg st r1, 0, [], ROk)
  end.

Definition release_players (st : rst) (players : list Z) : rst := enter_queue st players.

(* ---- observations ---- *)
Definition obs_events (evs : list revent) : list Z :=
  flat_map (fun e => match e with
                     | EvRequest id ps => 1 :: id :: zn (length ps) :: ps
                     | EvAssign id ps => 2 :: id :: zn (length ps) :: ps
                     end) (rev evs).

Definition obs_reg (r : reg) : obs :=
  [("pc"%string, [r_pc r]); ("tc"%string, [r_tc r]); ("status"%string, [r_status r]);
   ("queue"%string, r_queue r);
   ("tables"%string, flat_map (fun t => [t_id t; t_required t; t_pc t]) (r_tables r))].
