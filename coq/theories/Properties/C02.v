(* C02 — showdown pays the right players the right amounts. *)
From PF Require Import Base ModelPot ModelSettle.

(* regression witness of the repaired defect: contributions 100,100,1,1,2 with the last three
   folded and two tied winners -> both win 2 (before the repair: 3 and 1) *)
Theorem C02_tied_winners_witness :
  map r_changed (res_players (settle
      (get_pots (ll_of [(0, 100, false); (1, 100, false); (2, 1, true); (3, 1, true); (4, 2, true)]))
      [(0, 1000, 7); (1, 1000, 7); (2, 1000, 0); (3, 1000, 0); (4, 1000, 0)]))
  = [2; 2; -1; -1; -2].
Proof. vm_compute. reflexivity. Qed.
Print Assumptions C02_tied_winners_witness.
