(* ModelSeat.v — model of seat_manager.SeatManager (every public method is taken
   as atomic: each runs under sm.mu). *)
From PF Require Import Base.

Record seat := mkSeat { s_occ : bool; s_active : bool; s_reserved : bool }.

Record smgr := mkSM {
  sm_seats : list seat;
  sm_dealer : option nat; sm_sb : option nat; sm_bb : option nat }.

Inductive sm_out :=
  SOk | SErrNotFoundSeat | SErrNoAvailableSeat | SErrNotAvailable | SErrInvalidSeat
| SErrInsufficient | SErrEmptySeat | SBadChoice | SPanic.

Definition sm_out_code (o : sm_out) : Z :=
  match o with
  | SOk => 0 | SErrNotFoundSeat => 1 | SErrNoAvailableSeat => 2 | SErrNotAvailable => 3
  | SErrInvalidSeat => 4 | SErrInsufficient => 5 | SErrEmptySeat => 6 | SBadChoice => 8 | SPanic => 9
  end.

Inductive sm_op :=
| OJoin (seatID : Z) (choice : Z)   (* choice: the seat Join(-1) was observed to pick *)
| OSeat (id : Z) | OReserve (id : Z) | OLeave (id : Z) | ONext.

Definition sm_init (max : nat) : smgr :=
  mkSM (repeat (mkSeat false true false) max) None None None.

Definition sm_max (s : smgr) : nat := length (sm_seats s).

Definition playable (x : seat) : bool := s_active x && negb (s_reserved x) && s_occ x.
Definition nonempty (x : seat) : bool := negb (s_reserved x) && s_occ x.

Definition get_seat (s : smgr) (i : nat) : seat := nth i (sm_seats s) (mkSeat false false false).
Definition set_seats (s : smgr) (l : list seat) : smgr := mkSM l (sm_dealer s) (sm_sb s) (sm_bb s).
Definition upd_seat (s : smgr) (i : nat) (f : seat -> seat) : smgr :=
  set_seats s (update_nth i f (sm_seats s)).

Definition count_if (f : seat -> bool) (s : smgr) : nat := length (filter f (sm_seats s)).
Definition playable_count (s : smgr) : nat := count_if playable s.

(* getNormalizeSeats(start): seat indices start, start+1, ... wrapping round *)
Definition normalized (s : smgr) (start : nat) : list nat := rotate start (seq 0 (sm_max s)).

(* findActivePlayer over a list of seat indices: (seat index, position in the list) *)
Fixpoint find_active (s : smgr) (idxs : list nat) (pos : nat) : option (nat * nat) :=
  match idxs with
  | [] => None
  | i :: t => if playable (get_seat s i) then Some (i, pos) else find_active s t (S pos)
  end.

Fixpoint first_playable (l : list seat) (i : nat) : option nat :=
  match l with
  | [] => None
  | x :: t => if playable x then Some i else first_playable t (S i)
  end.

Definition activate (x : seat) : seat := mkSeat (s_occ x) true (s_reserved x).
Definition deactivate (x : seat) : seat := mkSeat (s_occ x) false (s_reserved x).

Definition activate_all (s : smgr) (idxs : list nat) : smgr :=
  fold_left (fun s i => upd_seat s i activate) idxs s.

Definition set_dealer (s : smgr) (d : option nat) : smgr := mkSM (sm_seats s) d (sm_sb s) (sm_bb s).

(* nextDealer *)
Definition next_dealer (s : smgr) : smgr * option nat :=
  if Nat.eqb (playable_count s) 1 then
    if Nat.leb (count_if nonempty s) 1 then (s, None)
    else match first_playable (sm_seats s) 0 with
         | None => (s, None)   (* unreachable: playable_count = 1 *)
         | Some d =>
             let s1 := set_dealer s (Some d) in
             let s2 := fold_left (fun s i => if nonempty (get_seat s i) then upd_seat s i activate else s)
                                 (tl (normalized s1 d)) s1 in
             (s2, Some d)
         end
  else
    let seats := match sm_dealer s with None => normalized s 0 | Some d => tl (normalized s d) end in
    match find_active s seats 0 with
    | Some (d', pos) => (set_dealer (activate_all s (firstn pos seats)) (Some d'), Some d')
    | None =>
        let s1 := activate_all s seats in
        let d' := match find_active s1 seats 0 with Some (d', _) => Some d' | None => None end in
        (set_dealer s1 d', d')
    end.

Fixpoint deactivate_until (s : smgr) (idxs : list nat) (bb : nat) : smgr :=
  match idxs with
  | [] => s
  | i :: t => if Nat.eqb i bb then s
              else deactivate_until (if s_occ (get_seat s i) then s else upd_seat s i deactivate) t bb
  end.

(* renewSeatStatus; None = the Go code slices with index -1 and panics *)
Definition renew (s : smgr) (d : nat) : option smgr :=
  let orig := normalized s d in
  let step1 :=
    if Nat.eqb (playable_count s) 2 then Some (d, orig)
    else match find_active s (tl orig) 0 with
         | Some (sb, i) => Some (sb, skipn i (tl orig))
         | None => None
         end in
  match step1 with
  | None => None
  | Some (sb, seats) =>
      match find_active s (tl seats) 0 with
      | None => None
      | Some (bb, i) =>
          let seats' := skipn i (tl seats) in
          let s1 := mkSM (sm_seats s) (sm_dealer s) (Some sb) (Some bb) in
          let s2 := deactivate_until s1 orig bb in
          Some (activate_all s2 (tl seats'))
      end
  end.

Definition sm_next (s : smgr) : smgr * sm_out :=
  match next_dealer s with
  | (s1, None) => (s1, SErrInsufficient)
  | (s1, Some d) =>
      if Nat.ltb (playable_count s1) 2 then (s1, SErrInsufficient)
      else match renew s1 d with
           | Some s2 => (s2, SOk)
           | None => (s1, SPanic)
           end
  end.

Definition in_range (s : smgr) (id : Z) : bool := (0 <=? id) && (id <? zn (sm_max s)).

Definition do_join (s : smgr) (i : nat) : smgr * sm_out * Z :=
  if s_occ (get_seat s i) then (s, SErrNotAvailable, -1)
  else (upd_seat s i (fun x => mkSeat true (s_active x) true), SOk, zn i).

Definition avail_active (x : seat) : bool := negb (s_reserved x) && negb (s_occ x) && s_active x.
Definition avail_alt (x : seat) : bool := negb (s_reserved x) && negb (s_occ x) && negb (s_active x).

(* step: new state, outcome, returned seat id (Join only, -1 otherwise) *)
Definition sm_step (s : smgr) (o : sm_op) : smgr * sm_out * Z :=
  match o with
  | OJoin id choice =>
      if (zn (sm_max s) <=? id) || (id <? -1) then (s, SErrInvalidSeat, -1)
      else if -1 <? id then do_join s (Z.to_nat id)
      else
        let na := count_if avail_active s in
        let nb := count_if avail_alt s in
        if Nat.eqb na 0 && Nat.eqb nb 0 then (s, SErrNoAvailableSeat, -1)
        else if negb (in_range s choice) then (s, SBadChoice, -1)
        else
          let x := get_seat s (Z.to_nat choice) in
          if (if Nat.eqb na 0 then avail_alt x else avail_active x)
          then do_join s (Z.to_nat choice) else (s, SBadChoice, -1)
  | OSeat id =>
      if in_range s id
      then (upd_seat s (Z.to_nat id) (fun x => mkSeat (s_occ x) (s_active x) false), SOk, -1)
      else (s, SErrNotFoundSeat, -1)
  | OReserve id =>
      if in_range s id
      then (upd_seat s (Z.to_nat id) (fun x => mkSeat (s_occ x) (s_active x) true), SOk, -1)
      else (s, SErrNotFoundSeat, -1)
  | OLeave id =>
      if in_range s id then
        if s_occ (get_seat s (Z.to_nat id))
        then (upd_seat s (Z.to_nat id) (fun x => mkSeat false (s_active x) false), SOk, -1)
        else (s, SErrEmptySeat, -1)
      else (s, SErrNotFoundSeat, -1)
  | ONext => let '(s', o) := sm_next s in (s', o, -1)
  end.

Definition sm_run (max : nat) (ops : list sm_op) : smgr :=
  fold_left (fun s o => fst (fst (sm_step s o))) ops (sm_init max).

(* ---- observations ---- *)
Definition opt_code (o : option nat) : Z := match o with Some n => zn n | None => -1 end.

Definition obs_sm (s : smgr) (o : sm_out) (ret : Z) : obs :=
  [("o"%string, [sm_out_code o]); ("ret"%string, [ret]);
   ("occ"%string, map (fun x => zb (s_occ x)) (sm_seats s));
   ("act"%string, map (fun x => zb (s_active x)) (sm_seats s));
   ("res"%string, map (fun x => zb (s_reserved x)) (sm_seats s));
   ("pos"%string, [opt_code (sm_dealer s); opt_code (sm_sb s); opt_code (sm_bb s)])].
