(* C09 — tournament balancing never loses, duplicates or miscounts a player. Refusals. *)
From PF Require Import Base ModelReg ModelSys ProofsRegBasic.

Theorem C09_sync_unknown_table_refused :
  forall st id out, find_table id (r_tables (rs_reg st)) = None ->
    sync_state st id out = (st, 0, [], RErrNotFoundTable).
Proof. exact sync_unknown_refused. Qed.
Print Assumptions C09_sync_unknown_table_refused.

Theorem C09_registration_after_deadline_refused :
  forall st players, r_status (rs_reg st) = 2 -> add_players st players = (st, RErrAfterDeadline).
Proof. exact add_after_deadline_refused. Qed.
Print Assumptions C09_registration_after_deadline_refused.

(* The regulator together with tables that follow its instructions, as a state machine (ProofsReg.v):
     SRegister choices players : AddPlayers(players), new players only; the callbacks are carried out (a
                                 requested table is opened with the players given, assigned players sit down)
     SStatus choices s         : SetStatus(s)
     SSync id out              : `out` players of table id are eliminated, the table calls SyncState(id, out)
                                 and carries out the answer: players handed to it sit down, the number it is
                                 asked to release leave the table (they are "in transit"), a table told to
                                 break releases everybody and disappears
     SRelease choices k        : the first k players in transit are handed back with ReleasePlayers
   `choices` is the order in which the Go map of tables happens to be iterated by the dispatches of the call.
   s_alive is the list of registered players that have not been eliminated. *)
From Coq Require Import Permutation Lia.
From PF Require Import ProofsReg.

Theorem C09_every_player_in_exactly_one_place :
  forall mx mn ops, 0 < mx ->
    let s := sys_run (sys_init mx mn) ops in
    let r := rs_reg (s_st s) in
    (* the waiting queue, the tables and the players in transit together hold every living player ... *)
    Permutation (r_queue r ++ members (s_tabs s) ++ s_transit s) (s_alive s) /\
    (* ... exactly once: nobody is duplicated, nobody is dropped *)
    NoDup (s_alive s) /\
    (* the regulator's player total, table count and per-table player counts are the real numbers *)
    r_pc r = zn (length (s_alive s)) /\
    r_tc r = zn (length (s_tabs s)) /\
    Forall2 (fun t m => t_id t = fst m /\ t_pc t = zn (length (snd m))) (r_tables r) (s_tabs s).
Proof.
  intros mx mn ops Hmx s r. destruct (SysInv_run mx mn ops Hmx) as [[A B C D E N F] _]. fold s in A, B, C, D, E, N, F. fold r in A, B, C, D, E, F.
  split; [exact E|]. split; [exact N|]. split; [exact F|]. split; [|exact A].
  rewrite B. f_equal. apply (Tcons_length _ _ A).
Qed.
Print Assumptions C09_every_player_in_exactly_one_place.

(* one step of that machine from any state satisfying the invariant, with any iteration order *)
Theorem C09_step_preserves : forall s o, SysInv s -> SysInv (sys_step s o).
Proof. exact SysInv_step. Qed.
Print Assumptions C09_step_preserves.

(* a table never is asked to release more players than it has, and never a negative number *)
Theorem C09_release_count_within_table :
  forall st ts transit alive alive' id out m,
    quiet st -> Sys (rs_reg st) ts transit alive -> 0 < r_max (rs_reg st) ->
    lookup id ts = Some m -> (out <= length m)%nat -> Permutation alive (firstn out m ++ alive') ->
    let res := sync_state st id (zn out) in
    let rel := snd (fst (fst res)) in
    0 <= rel <= zn (length (skipn out m ++ snd (fst res))).
Proof.
  intros st ts transit alive alive' id out m Hq HS Hm Hl Ho Hal res rel.
  destruct (Sys_sync st ts transit alive alive' id out m Hq HS Hm Hl Ho Hal) as (_ & _ & H). fold res in H. fold rel in H.
  destruct (find_table id _).
  - apply H.
  - destruct H as (H1 & H2 & _). rewrite H2, app_nil_r, H1. unfold zn. lia.
Qed.
Print Assumptions C09_release_count_within_table.

(* non-vacuity: a history with a registration batch, the start, eliminations, a release and a break *)
Example C09_example :
  let s := sys_run (sys_init 4 2) [SRegister [] [1; 2; 3; 4; 5; 6; 7]; SStatus [] 1; SSync 1 2; SSync 2 1; SRelease [] 5; SSync 1 0] in
  (length (s_alive s) = 4)%nat /\ r_pc (rs_reg (s_st s)) = 4.
Proof. vm_compute. split; reflexivity. Qed.

(* the same for the machine in which the table chooses freely which of its members are eliminated and the
   caller chooses freely which of the players in transit are handed back, and in which order (GSync id elim,
   GRelease choices batch).  This is the machine the extracted runner steps, operation by operation, on the
   histories the Go harness plays against the real regulator; the tables, the players in transit and the number
   of living players it computes are compared with the harness's own after every operation, so the environment
   of this theorem is the environment of the correspondence run. *)
From PF Require Import ProofsSys.
Theorem C09_every_player_in_exactly_one_place_any_choice :
  forall mx mn ops, 0 < mx ->
    let s := sys_grun (sys_init mx mn) ops in
    let r := rs_reg (s_st s) in
    Permutation (r_queue r ++ members (s_tabs s) ++ s_transit s) (s_alive s) /\
    NoDup (s_alive s) /\
    r_pc r = zn (length (s_alive s)) /\
    r_tc r = zn (length (s_tabs s)) /\
    Forall2 (fun t m => t_id t = fst m /\ t_pc t = zn (length (snd m))) (r_tables r) (s_tabs s).
Proof.
  intros mx mn ops Hmx s r. destruct (SysInv_grun mx mn ops Hmx) as [[A B C D E N F] _]. fold s in A, B, C, D, E, N, F. fold r in A, B, C, D, E, F.
  split; [exact E|]. split; [exact N|]. split; [exact F|]. split; [|exact A].
  rewrite B. f_equal. apply (Tcons_length _ _ A).
Qed.
Print Assumptions C09_every_player_in_exactly_one_place_any_choice.

Theorem C09_step_preserves_any_choice : forall s o, SysInv s -> SysInv (sys_gstep s o).
Proof. exact SysInv_gstep. Qed.
Print Assumptions C09_step_preserves_any_choice.

(* non-vacuity: the last two members of a table are eliminated, two players in transit are handed back in
   reverse order *)
Example C09_example_any_choice :
  let s := sys_grun (sys_init 4 2) [GRegister [] [1; 2; 3; 4; 5; 6; 7]; GStatus [] 1; GSync 1 [3; 2]; GSync 2 [7]; GRelease [] [6; 4]; GSync 1 []] in
  (length (s_alive s) = 4)%nat /\ r_pc (rs_reg (s_st s)) = 4 /\ s_transit s = [5].
Proof. vm_compute. repeat split; reflexivity. Qed.
