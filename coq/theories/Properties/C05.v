(* C05 — a betting round closes exactly when it should. *)
From PF Require Import Base ModelGame ProofsGameBasic.

(* when only one non-folded player remains, asking for the next action closes the round at once *)
Theorem C05_last_man_closes_round :
  forall g, alive_count g = 1%nat ->
    request_action g = round_closed g /\ st_event (g_st (round_closed g)) = EvRoundClosed.
Proof. intros g H. split; [apply request_action_last_man; exact H|reflexivity]. Qed.
Print Assumptions C05_last_man_closes_round.

Theorem C05_nobody_with_chips_closes_round :
  forall g, movable_count g = 0%nat -> request_action g = round_closed g.
Proof. exact request_action_nobody_movable. Qed.
Print Assumptions C05_nobody_with_chips_closes_round.

Theorem C05_closed_round_offers_nothing :
  forall g i, p_allowed (get_p (round_closed g) i) = [].
Proof. exact round_closed_no_offers. Qed.
Print Assumptions C05_closed_round_offers_nothing.

(* the hand ends at once when one non-folded player remains: Next goes straight to the settlement, no
   further card is dealt *)
From PF Require Import ProofsInv ProofsCards ProofsPhase.
Theorem C05_last_man_ends_the_hand :
  forall g, st_event (g_st g) = EvRoundClosed -> st_round (g_st g) <> RNone ->
    let g1 := reset_all_status (reset_round_status (set_last g (-1) LNext 0)) in
    alive_count g1 = 1%nat ->
    step g ONext = (let res := game_completed g1 in match res with (_, Panic) => (g, Panic) | x => x end) /\
    sv (fst (game_completed g1)) = sv g.
Proof.
  intros g He Hr g1 Ha. split.
  - cbn [step]. unfold do_next. rewrite He. cbn [event_eqb negb].
    change (st_round (g_st (set_last g (-1) LNext 0))) with (st_round (g_st g)). fold g1. rewrite Ha. cbn [Nat.eqb].
    destruct (st_round (g_st g)); [contradiction| | | |]; reflexivity.
  - rewrite sv_game_completed. reflexivity.
Qed.
Print Assumptions C05_last_man_ends_the_hand.

(* when fewer than two players still have chips, entering a street opens no betting round: the round is
   closed at once and the driver is asked to move on, until the board is complete *)
Theorem C05_no_betting_round_without_two_stacks :
  forall g, st_round (g_st g) <> Preflop -> (movable_count g <= 1)%nat -> prepare_round g = round_closed g.
Proof.
  intros g Hr Hm. unfold prepare_round. destruct (st_round (g_st g)); try contradiction;
    (replace (Nat.leb (movable_count g) 1) with true by (symmetry; apply Nat.leb_le; exact Hm)); reflexivity.
Qed.
Print Assumptions C05_no_betting_round_without_two_stacks.

(* during a betting round the seat asked to act has not yet acted since the wager last went up *)
Theorem C05_player_to_act_has_not_acted :
  forall c deck g ops,
    cfg_ok c -> length deck = length (c_deck c) -> create c deck = (g, Ok) ->
    let s := run g ops in
    st_event (g_st s) = EvRoundStarted -> p_acted (get_p s (st_cur (g_st s))) = false.
Proof.
  intros c deck g ops Hc Hl Hcr s He. apply (pi_cur s (good_phase s (Good_reachable c deck g ops Hc Hl Hcr)) He).
Qed.
Print Assumptions C05_player_to_act_has_not_acted.

(* the lap invariant, in every reachable state of an open betting round: every seat that has acted since the
   wager to match last went up (or since the last all-in) has put in exactly the wager to match, has folded or
   is all-in; and those seats form a chain that runs clockwise up to the seat to act *)
From PF Require Import ProofsFirst ProofsLap.
Theorem C05_lap_invariant :
  forall c deck g ops,
    cfg_ok c -> length deck = length (c_deck c) -> create c deck = (g, Ok) ->
    let s := run g ops in
    st_event (g_st s) = EvRoundStarted ->
    (forall j, (j < nplayers s)%nat -> p_acted (get_p s j) = true ->
       p_fold (get_p s j) = true \/ p_stack (get_p s j) = 0 \/ p_wager (get_p s j) = st_cw (g_st s)) /\
    (forall j, (j < nplayers s)%nat -> p_acted (get_p s j) = true ->
       p_acted (get_p s (left_of (nplayers s) j)) = true \/ left_of (nplayers s) j = st_cur (g_st s)).
Proof.
  intros c deck g ops Hc Hl Hcr s Ev. destruct (Lap_reachable c deck g ops Hc Hl Hcr Ev) as [L1 L2]. split; [exact L1|exact L2].
Qed.
Print Assumptions C05_lap_invariant.

(* a betting round is never closed early: when an accepted action closes it, then only one non-folded
   player is left, or nobody has chips, or every seat has had its turn since the wager to match last went
   up and every non-folded seat with chips has put in exactly the wager to match — also in the closed state *)
Theorem C05_never_closed_early :
  forall c deck g ops who a x s',
    cfg_ok c -> length deck = length (c_deck c) -> create c deck = (g, Ok) ->
    step (run g ops) (OAct who a x) = (s', Ok) -> st_event (g_st s') = EvRoundClosed ->
    exists g', s' = round_closed g' /\
      (alive_count g' = 1%nat \/ movable_count g' = 0%nat \/
       forall j, (j < nplayers g')%nat ->
         p_acted (get_p g' j) = true /\
         (p_fold (get_p s' j) = true \/ p_stack (get_p s' j) = 0 \/ p_wager (get_p s' j) = st_cw (g_st s'))).
Proof.
  intros c deck g ops who a x s' Hc Hl Hcr Hs Ev.
  destruct (closed_only_when_settled (run g ops) who a x s' (Good_reachable c deck g ops Hc Hl Hcr) (Lap_reachable c deck g ops Hc Hl Hcr) Hs Ev)
    as (g' & -> & _ & H).
  exists g'. split; [reflexivity|]. destruct H as [H|[H|H]]; [now left|right; now left|right; right].
  intros j Hj. destruct (H j Hj) as [A B]. split; [exact A|]. apply (matched_round_closed g' j Hj B).
Qed.
Print Assumptions C05_never_closed_early.

(* within one lap.  pending s = the number of seats that have not acted since the wager to match last went up
   (or since the last all-in).  In an open round it is between 1 and the number of seats; an accepted action
   that leaves the round open either lowers it by exactly one or is a wager increase / all-in that starts a
   new lap (pending >= seats - 1).  Hence at most seats - 1 actions in a row can leave the round open without
   a wager increase or all-in: the round closes within one lap. *)
From PF Require Import ProofsPhase.
Theorem C05_open_round_has_a_seat_to_act :
  forall c deck g ops,
    cfg_ok c -> length deck = length (c_deck c) -> create c deck = (g, Ok) ->
    let s := run g ops in
    st_event (g_st s) = EvRoundStarted -> 1 <= pending s <= zn (nplayers s).
Proof.
  intros c deck g ops Hc Hl Hcr s Ev. apply open_round_pending; [apply (Good_reachable c deck g ops Hc Hl Hcr)|exact Ev].
Qed.
Print Assumptions C05_open_round_has_a_seat_to_act.

Theorem C05_closes_within_one_lap :
  forall c deck g ops who a x s',
    cfg_ok c -> length deck = length (c_deck c) -> create c deck = (g, Ok) ->
    step (run g ops) (OAct who a x) = (s', Ok) -> st_event (g_st s') = EvRoundStarted ->
    pending s' = pending (run g ops) - 1 \/ zn (nplayers (run g ops)) - 1 <= pending s'.
Proof.
  intros c deck g ops who a x s' Hc Hl Hcr Hs Ev.
  apply (lap_progress (run g ops) who a x s' (Good_reachable c deck g ops Hc Hl Hcr) (Lap_reachable c deck g ops Hc Hl Hcr) Hs Ev).
Qed.
Print Assumptions C05_closes_within_one_lap.
