(* C03 — five-card ranking is the poker order. *)
From PF Require Import Base Comb ModelEval.
From PF.Gen Require Import Consts.

(* the generated rank table is the one the model and its specification were written against *)
Theorem C03_card_rank_table :
  card_rank_table = [(50, 2); (51, 3); (52, 4); (53, 5); (54, 6); (55, 7); (56, 8); (57, 9);
                     (65, 14); (74, 11); (75, 13); (81, 12); (84, 10)].
Proof. reflexivity. Qed.
Print Assumptions C03_card_rank_table.
