(* C15 — player and observer views never leak hidden cards. For EVERY state. *)
From PF Require Import Base ModelGame ProofsGameBasic.

Theorem C15_no_deck_no_burned :
  forall g v, m_deck (g_meta (view g v)) = [] /\ st_burned (g_st (view g v)) = [].
Proof. exact view_deck. Qed.
Print Assumptions C15_no_deck_no_burned.

(* what the viewer (Some seat / None = observer) sees of seat i: the own seat untouched; before
   the hand is closed every other seat, after it the folded ones, without hole cards and evaluation *)
Theorem C15_seats :
  forall g v i, (i < nplayers g)%nat ->
    let closed := event_eqb (st_event (g_st g)) EvGameClosed in
    let p := get_p g i in
    get_p (view g v) i =
    if match v with Some w => Nat.eqb i w | None => false end then p
    else if closed then (if p_fold p then hide_player p else p) else hide_player p.
Proof. exact view_seat. Qed.
Print Assumptions C15_seats.

Theorem C15_hidden_seat_shows_nothing :
  forall p, p_hole (hide_player p) = [] /\ p_comb (hide_player p) = None.
Proof. exact hide_player_hides. Qed.
Print Assumptions C15_hidden_seat_shows_nothing.

Theorem C15_public_information_unchanged :
  forall g v, let g' := view g v in
  st_board (g_st g') = st_board (g_st g) /\ st_pots (g_st g') = st_pots (g_st g) /\
  st_event (g_st g') = st_event (g_st g) /\ st_round (g_st g') = st_round (g_st g) /\
  st_cw (g_st g') = st_cw (g_st g) /\ st_prs (g_st g') = st_prs (g_st g) /\
  st_rpot (g_st g') = st_rpot (g_st g) /\ st_cur (g_st g') = st_cur (g_st g) /\
  st_raiser (g_st g') = st_raiser (g_st g) /\ st_minibet (g_st g') = st_minibet (g_st g) /\
  st_maxwager (g_st g') = st_maxwager (g_st g) /\ st_last (g_st g') = st_last (g_st g) /\
  st_dpos (g_st g') = st_dpos (g_st g) /\ g_result g' = g_result g /\ nplayers g' = nplayers g.
Proof. exact view_public. Qed.
Print Assumptions C15_public_information_unchanged.

Theorem C15_hidden_seat_keeps_public_fields :
  forall p,
  p_bankroll (hide_player p) = p_bankroll p /\ p_stack (hide_player p) = p_stack p /\
  p_wager (hide_player p) = p_wager p /\ p_pot (hide_player p) = p_pot p /\
  p_initial (hide_player p) = p_initial p /\ p_fold (hide_player p) = p_fold p /\
  p_allowed (hide_player p) = p_allowed p /\ p_acted (hide_player p) = p_acted p /\
  p_did (hide_player p) = p_did p /\ p_vpip (hide_player p) = p_vpip p /\
  p_dealer (hide_player p) = p_dealer p /\ p_sb (hide_player p) = p_sb p /\ p_bb (hide_player p) = p_bb p.
Proof. exact hide_player_keeps. Qed.
Print Assumptions C15_hidden_seat_keeps_public_fields.
