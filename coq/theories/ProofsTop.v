(* ProofsTop.v — the player who has put in the most has not folded (engine side of C02): a folded player
   never has more in the pot than every player still in the hand, so at the showdown he wins nothing. *)
From Coq Require Import Lia.
From PF Require Import Base ProofsBase Comb ModelPot ModelSettle ModelEval ModelGame
                       ProofsGameBasic ProofsChips ProofsInv ProofsPos ProofsOffers ProofsFirst ProofsView ProofsEffects ProofsCards
                       ProofsBlinds ProofsPot ProofsSettle ProofsResult ProofsPhase ProofsLap.

Definition total (g : gstate) (j : nat) : Z := p_pot (get_p g j) + p_wager (get_p g j).

(* what one accepted action does to the chips and the fold flags *)
Record act_summary (g s' : gstate) (i : nat) : Prop := mkActSum {
  as_n : nplayers s' = nplayers g;
  as_keep : forall j, (j < nplayers g)%nat ->
            p_pot (get_p s' j) = p_pot (get_p g j) /\ p_initial (get_p s' j) = p_initial (get_p g j);
  as_others : forall j, (j < nplayers g)%nat -> j <> i ->
              p_wager (get_p s' j) = p_wager (get_p g j) /\ foldf s' j = foldf g j;
  as_wager : p_wager (get_p g i) <= p_wager (get_p s' i);
  as_folded : foldf g i = true -> p_wager (get_p s' i) = p_wager (get_p g i);
  as_fold : foldf s' i = foldf g i \/
            (foldf s' i = true /\ p_wager (get_p s' i) = p_wager (get_p g i) /\ p_wager (get_p g i) < st_cw (g_st g));
  as_cw : (st_cw (g_st s') = st_cw (g_st g)) \/
          (st_cw (g_st g) < st_cw (g_st s') /\ st_cw (g_st s') = p_wager (get_p s' i) /\ foldf s' i = false) }.

Lemma cw_after_resume g : st_cw (g_st (resume g)) = st_cw (g_st g).
Proof. destruct (cv_parts _ _ (cv_resume g)) as (_ & _ & _ & H & _). exact H. Qed.

Lemma foldf_after_resume g j : foldf (resume g) j = foldf g j.
Proof. apply fold_after_resume. Qed.

Lemma foldf_upd_other g i f j : i <> j -> foldf (upd_p g i f) j = foldf g j.
Proof. intros H. unfold foldf. rewrite get_p_upd_other by exact H. reflexivity. Qed.

(* the non-paying actions *)
Lemma simple_summary g i (f : pstate -> pstate) t v :
  (i < nplayers g)%nat -> (forall p, chips_of (f p) = chips_of p) ->
  (p_fold (f (get_p g i)) = p_fold (get_p g i) \/ (p_fold (f (get_p g i)) = true /\ p_wager (get_p g i) < st_cw (g_st g))) ->
  act_summary g (resume (set_last (upd_p g i f) (zn i) t v)) i.
Proof.
  intros Hi Hf Hfold.
  set (g1 := set_last (upd_p g i f) (zn i) t v).
  assert (Hn : nplayers g1 = nplayers g) by (unfold g1, set_last; rewrite nplayers_with_st; apply nplayers_upd).
  assert (Hch : forall j, (j < nplayers g)%nat -> chips_of (get_p (resume g1) j) = chips_of (get_p g j)).
  { intros j Hj. rewrite chips_after_resume by (rewrite Hn; exact Hj). unfold g1, set_last. rewrite get_p_with_st.
    destruct (Nat.eq_dec i j) as [<-|Hne]; [rewrite get_p_upd_same by exact Hi; apply Hf|rewrite get_p_upd_other by exact Hne; reflexivity]. }
  constructor.
  - rewrite (nplayers_cv _ _ (cv_resume g1)). exact Hn.
  - intros j Hj. pose proof (Hch j Hj) as E. unfold chips_of in E. injection E as _ E2 _ E4 _. auto.
  - intros j Hj Hne. pose proof (Hch j Hj) as E. unfold chips_of in E. injection E as _ _ _ _ E5. split; [exact E5|].
    rewrite foldf_after_resume. unfold g1, set_last, foldf. rewrite get_p_with_st, get_p_upd_other by (intros H; apply Hne; symmetry; exact H). reflexivity.
  - pose proof (Hch i Hi) as E. unfold chips_of in E. injection E as _ _ _ _ E5. rewrite E5. lia.
  - intros _. pose proof (Hch i Hi) as E. unfold chips_of in E. injection E as _ _ _ _ E5. exact E5.
  - pose proof (Hch i Hi) as E. unfold chips_of in E. injection E as _ _ _ _ E5.
    assert (Hfi : foldf (resume g1) i = p_fold (f (get_p g i))).
    { rewrite foldf_after_resume. unfold g1, set_last, foldf. rewrite get_p_with_st, get_p_upd_same by exact Hi. reflexivity. }
    destruct Hfold as [H|[H1 H2]]; [left; rewrite Hfi; exact H|right; rewrite Hfi; auto].
  - left. rewrite cw_after_resume. reflexivity.
Qed.

(* the paying actions: the acting seat is marked (f0 keeps chips and fold), possibly the minimum raise is
   changed (F, G keep the players and the wager to match), and `chips` are paid *)
Lemma paying_summary g i (f0 : pstate -> pstate) (F G : gstate -> gstate) chips t v :
  (i < nplayers g)%nat -> (forall p, chips_of (f0 p) = chips_of p /\ p_fold (f0 p) = p_fold p) ->
  (forall y, g_players (F y) = g_players y /\ st_cw (g_st (F y)) = st_cw (g_st y)) ->
  (forall y, g_players (G y) = g_players y /\ st_cw (g_st (G y)) = st_cw (g_st y)) ->
  0 <= chips -> seat_ok (get_p g i) -> foldf g i = false -> (forall j, (j < nplayers g)%nat -> p_wager (get_p g j) <= st_cw (g_st g)) ->
  act_summary g (resume (set_last (G (pay (F (upd_p g i f0)) i chips true)) (zn i) t v)) i.
Proof.
  intros Hi Hf0 HF HG Hch Hseat Hlive Hle.
  set (g1 := upd_p g i f0). set (b0 := F g1). destruct (HF g1) as [F1 F2].
  set (g2 := pay b0 i chips true). destruct (HG g2) as [G1 G2].
  set (g3 := set_last (G g2) (zn i) t v).
  assert (Hget0 : forall j, get_p b0 j = get_p g1 j) by (intros j; unfold get_p, b0; now rewrite F1).
  assert (Hn0 : nplayers b0 = nplayers g) by (unfold b0, nplayers; rewrite F1; apply nplayers_upd).
  assert (Hget3 : forall j, get_p g3 j = get_p g2 j) by (intros j; unfold get_p, g3, set_last; cbn [with_st g_players]; now rewrite G1).
  assert (Hn3 : nplayers g3 = nplayers g).
  { unfold g3, set_last. rewrite nplayers_with_st. unfold nplayers at 1. rewrite G1. fold (nplayers g2). unfold g2. rewrite pay_nplayers. exact Hn0. }
  assert (Hb0 : forall j, (j < nplayers g)%nat -> chips_of (get_p b0 j) = chips_of (get_p g j) /\ foldf b0 j = foldf g j).
  { intros j Hj. unfold foldf. rewrite Hget0. unfold g1. destruct (Nat.eq_dec i j) as [<-|Hne].
    - rewrite get_p_upd_same by exact Hi. apply Hf0.
    - rewrite get_p_upd_other by exact Hne. split; reflexivity. }
  assert (Hi0 : (i < nplayers b0)%nat) by (rewrite Hn0; exact Hi).
  pose proof (pay_chips b0 i chips true Hi0) as Hpc. fold g2 in Hpc. cbv zeta in Hpc.
  pose proof (pay_view b0 i chips true Hi0) as (_ & _ & _ & _ & Hcw). fold g2 in Hcw.
  destruct (Hb0 i Hi) as [Eci Efi]. unfold chips_of in Eci. injection Eci as Eb Ei Es Ep Ew.
  destruct Hseat as (S1 & S2 & S3 & S4 & S5).
  (* chips and folds of the final state *)
  assert (Hfin : forall j, (j < nplayers g)%nat -> chips_of (get_p (resume g3) j) = chips_of (get_p g2 j) /\ foldf (resume g3) j = foldf g j).
  { intros j Hj. split.
    - rewrite chips_after_resume by (rewrite Hn3; exact Hj). rewrite Hget3. reflexivity.
    - rewrite foldf_after_resume. unfold foldf. rewrite Hget3. fold (foldf g2 j). unfold g2. rewrite foldf_pay. apply Hb0. exact Hj. }
  assert (Hoth : forall j, (j < nplayers g)%nat -> j <> i -> chips_of (get_p g2 j) = chips_of (get_p g j)).
  { intros j Hj Hne. unfold g2. rewrite pay_other by (try (rewrite Hn0; exact Hj); intros E; apply Hne; symmetry; exact E). apply Hb0. exact Hj. }
  assert (Hcw3 : st_cw (g_st (resume g3)) = Z.max (st_cw (g_st g)) (pay_new_wager (get_p b0 i) chips)).
  { rewrite cw_after_resume. unfold g3. cbn [set_last with_st g_st st_cw st_set_last]. rewrite G2, Hcw. unfold b0 at 1. rewrite F2. reflexivity. }
  assert (Hwi : p_wager (get_p (resume g3) i) = pay_new_wager (get_p b0 i) chips /\
                p_pot (get_p (resume g3) i) = p_pot (get_p g i) /\ p_initial (get_p (resume g3) i) = p_initial (get_p g i)).
  { destruct (Hfin i Hi) as [E _]. rewrite Hpc in E. unfold pay_new_wager. unfold chips_of in E.
    destruct (p_stack (get_p b0 i) <=? chips); injection E as _ E2 _ E4 E5; rewrite E2, E4, E5, ?Ei, ?Ep; auto. }
  destruct Hwi as (Hw & Hp & Hin).
  assert (Hnw : p_wager (get_p g i) <= pay_new_wager (get_p b0 i) chips).
  { unfold pay_new_wager. rewrite Ei, Ew, Es. destruct (p_stack (get_p g i) <=? chips); lia. }
  constructor.
  - rewrite (nplayers_cv _ _ (cv_resume g3)). exact Hn3.
  - intros j Hj. destruct (Nat.eq_dec j i) as [->|Hne]; [auto|].
    destruct (Hfin j Hj) as [E _]. rewrite (Hoth j Hj Hne) in E. unfold chips_of in E. injection E as _ E2 _ E4 _. auto.
  - intros j Hj Hne. destruct (Hfin j Hj) as [E Ef]. rewrite (Hoth j Hj Hne) in E. unfold chips_of in E. injection E as _ _ _ _ E5. auto.
  - rewrite Hw. exact Hnw.
  - intros H. rewrite H in Hlive. discriminate.
  - left. apply (Hfin i Hi).
  - rewrite Hcw3, Hw. destruct (Z_lt_le_dec (st_cw (g_st g)) (pay_new_wager (get_p b0 i) chips)) as [H|H].
    + right. split; [lia|]. split; [lia|]. rewrite (proj2 (Hfin i Hi)). exact Hlive.
    + left. lia.
Qed.

Lemma available_live s p a : In a (available_actions s p) -> a <> APass -> p_fold p = false.
Proof. unfold available_actions. destruct (p_fold p); [intros [<-|[]] H; contradiction|reflexivity]. Qed.

Lemma available_fold s p : In AFold (available_actions s p) -> p_wager p < st_cw s.
Proof.
  unfold available_actions. destruct (p_fold p); [intros [H|[]]; discriminate|]. destruct (p_stack p =? 0); [intros [H|[]]; discriminate|].
  intros [H|H]; [discriminate|]. destruct (p_wager p <? st_cw s) eqn:E; [apply Z.ltb_lt; exact E|]. exfalso.
  destruct H as [H|H]; [discriminate|]. destruct (st_minibet s <=? p_initial p); [|contradiction].
  destruct (st_cw s =? 0); destruct H as [H|[]]; discriminate.
Qed.

Lemma act_summary_of g i a x :
  Good g -> snd (act_of g i a x) = Ok ->
  act_summary g (fst (act_of g i a x)) i /\ (i < nplayers g)%nat /\ st_event (g_st g) = EvRoundStarted /\ i = st_cur (g_st g).
Proof.
  intros [HI HO HK P _] Hok.
  assert (Ctx : forall b, allowed g i b = true ->
            i = st_cur (g_st g) /\ st_event (g_st g) = EvRoundStarted /\ (i < nplayers g)%nat /\
            seat_ok (get_p g i) /\ In b (available_actions (g_st g) (get_p g i)) /\ Cinv g).
  { intros b Hb. destruct (accepted_is_current g i b HI HO Hb) as [Ei Ev]. destruct (oi_cur g HO Ev) as [Hc Ho].
    rewrite <- Ei in Hc, Ho.
    split; [exact Ei|]. split; [exact Ev|]. split; [exact Hc|].
    split; [apply (c0_seats g (inv_chips g HI)); exact Hc|].
    split; [rewrite <- Ho; apply allowed_in; exact Hb|].
    apply Inv_Cinv; [exact HI|rewrite Ev; discriminate]. }
  assert (Pack : forall b (s' : gstate), allowed g i b = true -> act_summary g s' i ->
            act_summary g s' i /\ (i < nplayers g)%nat /\ st_event (g_st g) = EvRoundStarted /\ i = st_cur (g_st g)).
  { intros b s' Hb HS. destruct (Ctx b Hb) as (E1 & E2 & E3 & _). auto. }
  assert (Paying : forall b d (F G : gstate -> gstate) chips t v, allowed g i b = true -> b <> APass ->
            (forall y, g_players (F y) = g_players y /\ st_cw (g_st (F y)) = st_cw (g_st y)) ->
            (forall y, g_players (G y) = g_players y /\ st_cw (g_st (G y)) = st_cw (g_st y)) -> 0 <= chips ->
            act_summary g (resume (set_last (G (pay (F (upd_p g i (fun p => p_set_acted (p_set_did p d) true))) i chips true)) (zn i) t v)) i).
  { intros b d F G chips t v Hb Hnp HF HG Hch. destruct (Ctx b Hb) as (_ & _ & Hi & Hseat & Hin & Hc).
    apply paying_summary; try assumption.
    - intros p. split; reflexivity.
    - unfold foldf. apply (available_live _ _ b Hin Hnp).
    - apply (ci_le g Hc). }
  assert (Hcall : snd (act_call g i) = Ok -> act_summary g (fst (act_call g i)) i /\ (i < nplayers g)%nat /\ st_event (g_st g) = EvRoundStarted /\ i = st_cur (g_st g)).
  { unfold act_call. destruct (allowed g i ACall) eqn:Ha; [|discriminate]. cbn [negb fst snd]. intros _.
    destruct (Ctx ACall Ha) as (_ & _ & Hi & _ & Hin & Hc).
    destruct (available_facts _ _ ACall Hin ltac:(discriminate)) as (_ & Hw & _). specialize (Hw eq_refl).
    apply (Pack ACall _ Ha). apply (Paying ACall DCall (fun y => y) (fun y => y) _ LCall _ Ha ltac:(discriminate)); try (intros y; split; reflexivity).
    destruct (st_cw (g_st g) <? m_bbb (g_meta g)) eqn:E; [apply Z.ltb_lt in E|]; lia. }
  assert (Hallin : snd (act_allin g i) = Ok -> act_summary g (fst (act_allin g i)) i /\ (i < nplayers g)%nat /\ st_event (g_st g) = EvRoundStarted /\ i = st_cur (g_st g)).
  { unfold act_allin. destruct (allowed g i AAllin) eqn:Ha; [|discriminate]. cbn [negb fst snd]. intros _.
    destruct (Ctx AAllin Ha) as (_ & _ & Hi & Hseat & _ & _).
    set (g1 := upd_p g i (fun p => p_set_acted (p_set_did p DAllin) true)).
    assert (Hst : p_stack (get_p g1 i) = p_stack (get_p g i)) by (unfold g1; rewrite get_p_upd_same by exact Hi; reflexivity).
    destruct Hseat as (_ & _ & S3 & _).
    apply (Pack AAllin _ Ha).
    apply (Paying AAllin DAllin (fun y => if st_prs (g_st y) <=? p_initial (get_p y i) - st_cw (g_st y)
                                   then with_st y (st_set_prs (g_st y) (p_initial (get_p y i) - st_cw (g_st y))) else y)
                  (fun y => y) _ LAllin _ Ha ltac:(discriminate)).
    - intros y. destruct (_ <=? _); split; reflexivity.
    - intros y. split; reflexivity.
    - fold g1. rewrite Hst. exact S3. }
  destruct a; cbn [act_of] in *.
  - unfold act_pass in *. destruct (allowed g i APass) eqn:Ha; [|discriminate]. cbn [negb fst snd] in *.
    destruct (Ctx APass Ha) as (_ & _ & Hi & _). apply (Pack APass _ Ha).
    apply simple_summary; [exact Hi|reflexivity|left; reflexivity].
  - unfold act_fold in *. destruct (allowed g i AFold) eqn:Ha; [|discriminate]. cbn [negb fst snd] in *.
    destruct (Ctx AFold Ha) as (_ & _ & Hi & _ & Hin & _). apply (Pack AFold _ Ha).
    apply simple_summary; [exact Hi|reflexivity|right; split; [reflexivity|apply (available_fold _ _ Hin)]].
  - unfold act_check in *. destruct (allowed g i ACheck) eqn:Ha; [|discriminate]. cbn [negb fst snd] in *.
    destruct (Ctx ACheck Ha) as (_ & _ & Hi & _). apply (Pack ACheck _ Ha).
    apply simple_summary; [exact Hi|reflexivity|left; reflexivity].
  - apply Hcall. exact Hok.
  - apply Hallin. exact Hok.
  - unfold act_bet in *. destruct (allowed g i ABet) eqn:Ha; [|discriminate]. cbn [negb] in *.
    destruct (x <=? 0) eqn:Ex; [discriminate|]. apply Z.leb_gt in Ex.
    destruct (_ <=? x); [apply Hallin; exact Hok|]. cbn [fst snd] in *. apply (Pack ABet _ Ha).
    apply (Paying ABet DBet (fun y => y) (fun y => with_st y (st_set_prs (g_st y) x)) x LBet x Ha ltac:(discriminate)); try (intros y; split; reflexivity). lia.
  - unfold act_raise in *. destruct (allowed g i ARaise) eqn:Ha; [|discriminate]. cbn [negb] in *.
    destruct ((x =? 0) || (x <? st_cw (g_st g))) eqn:E1; [discriminate|]. apply orb_false_elim in E1 as [E1a E1b].
    apply Z.eqb_neq in E1a. apply Z.ltb_ge in E1b.
    destruct (x =? st_cw (g_st g)) eqn:E2; [apply Hcall; exact Hok|]. apply Z.eqb_neq in E2.
    destruct (_ || _); [apply Hallin; exact Hok|]. cbn [fst snd] in *.
    destruct (Ctx ARaise Ha) as (_ & _ & Hi & Hseat & Hin & Hc).
    destruct (available_facts _ _ ARaise Hin ltac:(discriminate)) as (_ & _ & Hr). specialize (Hr eq_refl).
    pose proof (ci_le g Hc i Hi) as Hle. pose proof (ci_cw g Hc) as Hcw. pose proof (ci_prs g Hc) as Hprs.
    destruct Hseat as (_ & _ & _ & S4 & _).
    assert (Hcwpos : 0 < st_cw (g_st g)) by (destruct Hr; lia).
    apply (Pack ARaise _ Ha).
    match goal with |- context [pay (with_st ?gg (st_set_prs _ ?rr)) i ?qq true] =>
      apply (Paying ARaise DRaise (fun y => with_st y (st_set_prs (g_st y) rr)) (fun y => y) qq LRaise qq Ha ltac:(discriminate)) end;
      try (intros y; split; reflexivity).
    destruct (m_limit_pot (g_meta g) && _); lia.
  - exfalso. unfold act_pay in Hok. destruct (allowed g i APay) eqn:Ha; [|discriminate].
    pose proof (inv_nopay g HI i) as Hn. unfold allowed in Ha. simpl in Hn. rewrite Hn in Ha. discriminate.
Qed.

(* ---------- the invariant ---------- *)
Record Tcore (g : gstate) : Prop := mkTcore {
  t_pot : forall i j, (i < nplayers g)%nat -> (j < nplayers g)%nat -> foldf g j = false -> 0 < p_initial (get_p g j) ->
          p_pot (get_p g i) <= p_pot (get_p g j);
  t_hold : 0 < st_cw (g_st g) -> exists k, (k < nplayers g)%nat /\ foldf g k = false /\ p_wager (get_p g k) = st_cw (g_st g);
  t_top : forall i, (i < nplayers g)%nat -> foldf g i = true ->
          exists k, (k < nplayers g)%nat /\ foldf g k = false /\ total g i <= total g k }.

Definition settled (g : gstate) : Prop :=
  alive_count g = 1%nat \/ movable_count g = 0%nat \/
  forall j, (j < nplayers g)%nat -> foldf g j = false -> p_stack (get_p g j) <> 0 -> p_wager (get_p g j) = st_cw (g_st g).

Record Tinv (g : gstate) : Prop := mkTinv {
  ti_core : Tcore g;
  ti_closed : st_event (g_st g) = EvRoundClosed -> settled g;
  ti_nofold : st_round (g_st g) = RNone \/ st_event (g_st g) = EvBlindsRequested -> forall j, (j < nplayers g)%nat -> foldf g j = false }.

(* Tcore and settled read the chips, the wager to match and the fold flags only *)
Lemma view_get g g' j : chips_view g' = chips_view g -> gv p_fold g' = gv p_fold g -> (j < nplayers g)%nat ->
  chips_of (get_p g' j) = chips_of (get_p g j) /\ foldf g' j = foldf g j.
Proof.
  intros Hv Hf Hj. destruct (cv_parts _ _ Hv) as (_ & Hpl & _). split; [|apply foldf_neutral; exact Hf].
  rewrite !get_p_cv by (try rewrite (nplayers_cv _ _ Hv); exact Hj). now rewrite Hpl.
Qed.

Lemma Tcore_view g g' : chips_view g' = chips_view g -> gv p_fold g' = gv p_fold g -> Tcore g -> Tcore g'.
Proof.
  intros Hv Hf [A B C]. pose proof (nplayers_cv _ _ Hv) as Hn. destruct (cv_parts _ _ Hv) as (_ & _ & _ & Hcw & _).
  assert (G : forall j, (j < nplayers g)%nat -> chips_of (get_p g' j) = chips_of (get_p g j) /\ foldf g' j = foldf g j)
    by (intros j Hj; apply view_get; assumption).
  constructor.
  - intros i j Hi Hj Hl Hin. rewrite Hn in Hi, Hj. destruct (G i Hi) as [Ei _]. destruct (G j Hj) as [Ej Fj].
    unfold chips_of in Ei, Ej. injection Ei as _ _ _ Ei _. injection Ej as _ Ej2 _ Ej _. rewrite Ei, Ej. apply A; try assumption; [rewrite <- Fj; exact Hl|rewrite <- Ej2; exact Hin].
  - rewrite Hcw. intros Hc. destruct (B Hc) as (k & Hk & K1 & K2). exists k. rewrite Hn. destruct (G k Hk) as [Ek Fk].
    unfold chips_of in Ek. injection Ek as _ _ _ _ Ek. rewrite Fk, Ek. auto.
  - intros i Hi Hfo. rewrite Hn in Hi. destruct (G i Hi) as [Ei Fi]. rewrite Fi in Hfo. destruct (C i Hi Hfo) as (k & Hk & K1 & K2).
    exists k. rewrite Hn. destruct (G k Hk) as [Ek Fk]. split; [exact Hk|]. split; [rewrite Fk; exact K1|].
    unfold total in *. unfold chips_of in Ei, Ek. injection Ei as _ _ _ Ei1 Ei2. injection Ek as _ _ _ Ek1 Ek2. rewrite Ei1, Ei2, Ek1, Ek2. exact K2.
Qed.

Lemma counts_view g g' : chips_view g' = chips_view g -> gv p_fold g' = gv p_fold g ->
  alive_count g' = alive_count g /\ movable_count g' = movable_count g.
Proof.
  intros Hv Hf. destruct (cv_parts _ _ Hv) as (_ & Hpl & _). unfold gv in Hf. unfold cv_players in Hpl.
  unfold alive_count, movable_count.
  assert (G : forall l l' : list pstate, map chips_of l' = map chips_of l -> map p_fold l' = map p_fold l ->
              length (filter (fun p => negb (p_fold p)) l') = length (filter (fun p => negb (p_fold p)) l) /\
              length (filter (fun p => negb (p_fold p || (p_stack p =? 0))) l') = length (filter (fun p => negb (p_fold p || (p_stack p =? 0))) l)).
  { induction l as [|p t IH]; intros [|p' t'] E1 E2; simpl in *; try discriminate; [auto|].
    pose proof (f_equal (fun l => hd (chips_of dflt_p) l) E1) as E1a. pose proof (f_equal (@tl _) E1) as E1b. cbn [hd tl] in E1a, E1b.
    injection E2 as E2a E2b. destruct (IH t' E1b E2b) as [I1 I2].
    unfold chips_of in E1a. injection E1a as _ _ Es _ _. rewrite E2a, Es.
    split; [destruct (negb (p_fold p)); simpl; congruence|destruct (negb (p_fold p || (p_stack p =? 0))); simpl; congruence]. }
  apply G; assumption.
Qed.

Lemma settled_view g g' : chips_view g' = chips_view g -> gv p_fold g' = gv p_fold g -> settled g -> settled g'.
Proof.
  intros Hv Hf H. destruct (counts_view g g' Hv Hf) as [C1 C2]. pose proof (nplayers_cv _ _ Hv) as Hn.
  destruct (cv_parts _ _ Hv) as (_ & _ & _ & Hcw & _). unfold settled. rewrite C1, C2, Hn, Hcw.
  destruct H as [H|[H|H]]; [now left|right; now left|right; right].
  intros j Hj Hl Hs. destruct (view_get g g' j Hv Hf Hj) as [E F]. unfold chips_of in E. injection E as _ _ Es _ Ew.
  rewrite Ew. apply H; [exact Hj|rewrite <- F; exact Hl|rewrite <- Es; exact Hs].
Qed.

(* ---------- an accepted action ---------- *)
Lemma Tcore_action g s' i :
  Cinv g -> (forall j, (j < nplayers s')%nat -> p_wager (get_p s' j) <= st_cw (g_st s')) ->
  Tcore g -> act_summary g s' i -> (i < nplayers g)%nat -> Tcore s'.
Proof.
  intros Hc Hle' [A B C] [Sn Sk So Sw Sfd Sf Scw] Hi.
  pose proof (ci_le g Hc) as Hle. pose proof (ci_cw g Hc) as Hcw0. pose proof (ci_seats g Hc) as Hseats.
  (* a seat that is live afterwards was live before *)
  assert (Live : forall b, (b < nplayers g)%nat -> foldf s' b = false -> foldf g b = false).
  { intros b Hb Hl. destruct (Nat.eq_dec b i) as [->|Hne]; [|rewrite <- (proj2 (So b Hb Hne)); exact Hl].
    destruct Sf as [H|(H & _)]; [rewrite <- H; exact Hl|rewrite H in Hl; discriminate]. }
  (* when the actor folds, the holder of the wager to match covers him *)
  assert (Cover : foldf s' i = true -> p_wager (get_p s' i) = p_wager (get_p g i) -> p_wager (get_p g i) < st_cw (g_st g) ->
            exists h, (h < nplayers g)%nat /\ h <> i /\ foldf g h = false /\ total g i <= total g h).
  { intros _ _ Hlt. pose proof (Hseats i Hi) as (_ & _ & _ & Wi & _). destruct (B ltac:(lia)) as (h & Hh & H1 & H2).
    exists h. split; [exact Hh|]. split; [intros ->; lia|]. split; [exact H1|].
    destruct (Hseats h Hh) as (_ & I2 & I3 & _ & _).
    assert (Hin : 0 < p_initial (get_p g h)) by lia.
    pose proof (A i h Hi Hh H1 Hin). unfold total. lia. }
  constructor.
  - intros a b Ha Hb Hl Hin. rewrite Sn in Ha, Hb. destruct (Sk a Ha) as [-> _]. destruct (Sk b Hb) as [-> Eb]. rewrite Eb in Hin.
    apply A; try assumption. apply Live; assumption.
  - intros Hpos. destruct Scw as [E|(E1 & E2 & E3)].
    + rewrite E in Hpos. destruct (B Hpos) as (k & Hk & K1 & K2). exists k. rewrite Sn. split; [exact Hk|].
      destruct (Nat.eq_dec k i) as [->|Hne].
      * assert (Hw : p_wager (get_p s' i) = st_cw (g_st s')).
        { pose proof (Hle' i ltac:(rewrite Sn; exact Hi)). rewrite E in *. lia. }
        split; [|exact Hw]. destruct Sf as [H|(_ & _ & H)]; [rewrite H; exact K1|lia].
      * destruct (So k Hk Hne) as [W F]. rewrite F, W, E. auto.
    + exists i. rewrite Sn. auto.
  - intros a Ha Hfo. rewrite Sn in Ha.
    assert (Tot : forall j, (j < nplayers g)%nat -> j <> i -> total s' j = total g j).
    { intros j Hj Hne. unfold total. destruct (Sk j Hj) as [-> _]. destruct (So j Hj Hne) as [-> _]. reflexivity. }
    assert (Toti : total g i <= total s' i) by (unfold total; destruct (Sk i Hi) as [-> _]; lia).
    (* a witness for a seat that was folded before and whose total did not change *)
    assert (Old : forall a0, (a0 < nplayers g)%nat -> foldf g a0 = true -> total s' a0 = total g a0 ->
              exists k, (k < nplayers s')%nat /\ foldf s' k = false /\ total s' a0 <= total s' k).
    { intros a0 Ha0 Hf0 Ht0. destruct (C a0 Ha0 Hf0) as (k & Hk & K1 & K2). rewrite Sn.
      destruct (Nat.eq_dec k i) as [->|Hne].
      - destruct Sf as [H|(H1 & H2 & H3)].
        + exists i. split; [exact Hi|]. split; [rewrite H; exact K1|lia].
        + destruct (Cover H1 H2 H3) as (h & Hh & Hne & L1 & L2). exists h. split; [exact Hh|].
          split; [rewrite (proj2 (So h Hh Hne)); exact L1|]. rewrite (Tot h Hh Hne). lia.
      - exists k. split; [exact Hk|]. split; [rewrite (proj2 (So k Hk Hne)); exact K1|]. rewrite (Tot k Hk Hne). lia. }
    destruct (Nat.eq_dec a i) as [->|Hne].
    + destruct Sf as [H|(H1 & H2 & H3)].
      * (* the actor was folded already: his wager did not move *)
        rewrite H in Hfo. apply Old; [exact Hi|exact Hfo|]. unfold total. destruct (Sk i Hi) as [-> _]. rewrite (Sfd Hfo). reflexivity.
      * destruct (Cover H1 H2 H3) as (h & Hh & Hneh & L1 & L2). exists h. rewrite Sn. split; [exact Hh|].
        split; [rewrite (proj2 (So h Hh Hneh)); exact L1|]. rewrite (Tot h Hh Hneh). unfold total in *. destruct (Sk i Hi) as [-> _]. rewrite H2. exact L2.
    + apply Old; [exact Ha|rewrite <- (proj2 (So a Ha Hne)); exact Hfo|apply Tot; assumption].
Qed.

(* ---------- counting lemmas ---------- *)
Lemma filter_zero_all {A} (f : A -> bool) l : length (filter f l) = 0%nat -> forall x, In x l -> f x = false.
Proof.
  induction l as [|y t IH]; simpl; [intros _ x []|]. destruct (f y) eqn:E; [discriminate|].
  intros H x [<-|Hx]; [exact E|apply IH; assumption].
Qed.

Lemma filter_one_unique {A} (f : A -> bool) (d : A) l : length (filter f l) = 1%nat ->
  forall j j', (j < length l)%nat -> (j' < length l)%nat -> f (nth j l d) = true -> f (nth j' l d) = true -> j = j'.
Proof.
  induction l as [|y t IH]; simpl; [intros _ j j' Hj; lia|].
  destruct (f y) eqn:E; simpl.
  - intros H. assert (H0 : length (filter f t) = 0%nat) by lia. pose proof (filter_zero_all f t H0) as Hall.
    intros [|j] [|j'] Hj Hj' F1 F2; try reflexivity; exfalso.
    + rewrite (Hall (nth j' t d)) in F2; [discriminate|apply nth_In; lia].
    + rewrite (Hall (nth j t d)) in F1; [discriminate|apply nth_In; lia].
    + rewrite (Hall (nth j t d)) in F1; [discriminate|apply nth_In; lia].
  - intros H [|j] [|j'] Hj Hj' F1 F2; try congruence. f_equal. apply (IH H); try assumption; lia.
Qed.

Lemma movable_zero g : movable_count g = 0%nat -> forall j, (j < nplayers g)%nat -> foldf g j = true \/ p_stack (get_p g j) = 0.
Proof.
  intros H j Hj. unfold movable_count in H.
  pose proof (filter_zero_all _ _ H (get_p g j) ltac:(unfold get_p; apply nth_In; exact Hj)) as E. cbn beta in E.
  apply negb_false_iff, orb_true_iff in E as [E|E]; [left; exact E|right; apply Z.eqb_eq; exact E].
Qed.

Lemma alive_one g : alive_count g = 1%nat ->
  forall j j', (j < nplayers g)%nat -> (j' < nplayers g)%nat -> foldf g j = false -> foldf g j' = false -> j = j'.
Proof.
  intros H j j' Hj Hj' F1 F2. unfold alive_count in H.
  apply (filter_one_unique (fun p => negb (p_fold p)) dflt_p (g_players g) H j j' Hj Hj'); unfold foldf, get_p in *; [rewrite F1|rewrite F2]; reflexivity.
Qed.

(* ---------- Next: the wagers go to the pot ---------- *)
Lemma get_p_collect g j : (j < nplayers g)%nat ->
  get_p (reset_all_status (reset_round_status (set_last g (-1) LNext 0))) j = reset_player_status (get_p g j).
Proof. intros Hj. unfold reset_all_status. rewrite get_p_map by exact Hj. reflexivity. Qed.

Lemma Tcore_collect g :
  Cinv g -> Tcore g -> settled g ->
  Tcore (reset_all_status (reset_round_status (set_last g (-1) LNext 0))).
Proof.
  intros Hc [A B C] Hs.
  set (g1 := reset_all_status (reset_round_status (set_last g (-1) LNext 0))).
  assert (Hn : nplayers g1 = nplayers g) by (unfold g1, reset_all_status; rewrite nplayers_map; reflexivity).
  pose proof (ci_le g Hc) as Hle. pose proof (ci_cw g Hc) as Hcw0. pose proof (ci_seats g Hc) as Hseats.
  assert (G : forall j, (j < nplayers g)%nat ->
            p_pot (get_p g1 j) = p_pot (get_p g j) + p_wager (get_p g j) /\ p_wager (get_p g1 j) = 0 /\
            p_initial (get_p g1 j) = p_stack (get_p g j) /\ foldf g1 j = foldf g j).
  { intros j Hj. unfold g1, foldf. rewrite get_p_collect by exact Hj. unfold reset_player_status. cbn. auto. }
  constructor.
  - intros a b Ha Hb Hl Hin. rewrite Hn in Ha, Hb. destruct (G a Ha) as (Pa & _). destruct (G b Hb) as (Pb & _ & Ib & Fb).
    rewrite Pa, Pb. rewrite Ib in Hin. rewrite Fb in Hl.
    destruct (Hseats a Ha) as (_ & _ & _ & Wa & _). destruct (Hseats b Hb) as (_ & I2 & S3 & Wb & _).
    destruct Hs as [H1|[H0|Hm]].
    + (* one player left: he holds the wager to match *)
      destruct (Z_lt_le_dec 0 (st_cw (g_st g))) as [Hpos|Hz].
      * destruct (B Hpos) as (h & Hh & H1' & H2). assert (h = b) by (apply (alive_one g H1); assumption). subst h.
        pose proof (A a b Ha Hb Hl ltac:(lia)). pose proof (Hle a Ha). lia.
      * pose proof (Hle a Ha). pose proof (Hle b Hb). pose proof (A a b Ha Hb Hl ltac:(lia)). lia.
    + destruct (movable_zero g H0 b Hb) as [H|H]; [rewrite H in Hl; discriminate|lia].
    + pose proof (Hm b Hb Hl ltac:(lia)) as Hwb. pose proof (A a b Ha Hb Hl ltac:(lia)). pose proof (Hle a Ha). lia.
  - cbn. lia.
  - intros a Ha Hfo. rewrite Hn in Ha. destruct (G a Ha) as (Pa & Wa & _ & Fa). rewrite Fa in Hfo.
    destruct (C a Ha Hfo) as (k & Hk & K1 & K2). exists k. rewrite Hn. destruct (G k Hk) as (Pk & Wk & _ & Fk).
    split; [exact Hk|]. split; [rewrite Fk; exact K1|]. unfold total in *. rewrite Pa, Wa, Pk, Wk. lia.
Qed.

(* ---------- the fold flags under the table operations ---------- *)
Ltac fside := intros; reflexivity.

Lemma fv_do_ready g : gv p_fold (fst (do_ready g)) = gv p_fold g.
Proof.
  unfold do_ready. destruct (negb _); [reflexivity|].
  destruct (st_round (g_st (reset_all g))); cbn [fst]; try (rewrite (gv_start_round p_fold) by fside; apply (gv_reset_all p_fold); fside).
  destruct (0 <? _); cbn [fst]; [rewrite (gv_set_event p_fold)|rewrite (gv_enter_preflop p_fold) by fside]; apply (gv_reset_all p_fold); fside.
Qed.

Lemma cv_do_ready g : chips_view (fst (do_ready g)) = chips_view g.
Proof.
  unfold do_ready. destruct (negb _); [reflexivity|].
  destruct (st_round (g_st (reset_all g))); cbn [fst]; try (rewrite cv_start_round; apply cv_reset_all).
  destruct (0 <? _); cbn [fst]; [rewrite cv_set_event|rewrite cv_enter_preflop]; apply cv_reset_all.
Qed.

Lemma fv_do_pay_ante g : gv p_fold (fst (do_pay_ante g)) = gv p_fold g.
Proof.
  unfold do_pay_ante. destruct (_ =? 0); [reflexivity|]. destruct (negb _); [reflexivity|].
  assert (H : gv p_fold (fst (ante_loop (player_order g) g)) = gv p_fold g) by (apply gv_ante_loop; fside).
  destruct (ante_loop (player_order g) g) as [g1 [|]]; cbn [fst] in *; [|exact H].
  rewrite (gv_enter_preflop p_fold) by fside. rewrite (gv_reset_round_status p_fold), (gv_reset_all_status p_fold), (gv_update_pots p_fold), (gv_reset_all p_fold) by fside. exact H.
Qed.

Lemma fv_do_pay_blinds g : gv p_fold (fst (do_pay_blinds g)) = gv p_fold g.
Proof.
  unfold do_pay_blinds. destruct (negb _); [reflexivity|]. cbn [fst].
  rewrite (gv_prepare_round p_fold), (gv_reset_all p_fold), (gv_with_st p_fold) by fside. apply (gv_fold_pay_blind p_fold); fside.
Qed.

Lemma nofold_view g g' : gv p_fold g' = gv p_fold g -> nplayers g' = nplayers g ->
  (forall j, (j < nplayers g)%nat -> foldf g j = false) -> forall j, (j < nplayers g')%nat -> foldf g' j = false.
Proof. intros Hf Hn H j Hj. rewrite (foldf_neutral g g' j Hf). apply H. rewrite <- Hn. exact Hj. Qed.

(* a betting round that closes as soon as it is opened: one player left or nobody with chips *)
Lemma start_round_settled g : st_event (g_st (start_round g)) = EvRoundClosed -> settled (start_round g).
Proof.
  pose proof (unacted_reset_all g) as H0.
  assert (H1 : all_unacted (set_current (reset_all g) (dealer_of (reset_all g)))) by (intros j; rewrite actedf_set_current; apply H0).
  assert (RC : forall y, alive_count y = 1%nat \/ movable_count y = 0%nat -> settled (round_closed y)).
  { intros y Hy. destruct (counts_view y (round_closed y) (cv_round_closed y) ltac:(apply (gv_round_closed p_fold); fside)) as [C1 C2].
    unfold settled. rewrite C1, C2. destruct Hy; [now left|right; now left]. }
  assert (RA : forall y, all_unacted y -> st_event (g_st y) = EvRoundStarted -> st_event (g_st (request_action y)) = EvRoundClosed -> settled (request_action y)).
  { intros y Hu Ev. unfold request_action.
    destruct (Nat.eqb (alive_count y) 1) eqn:E1; [intros _; apply RC; left; apply Nat.eqb_eq; exact E1|].
    destruct (Nat.eqb (movable_count y) 0) eqn:E2; [intros _; apply RC; right; apply Nat.eqb_eq; exact E2|].
    destruct (p_acted (get_p y (next_idx y))) eqn:E3; [pose proof (Hu (next_idx y)) as H; unfold actedf in H; rewrite H in E3; discriminate|].
    rewrite event_set_current, Ev. discriminate. }
  unfold start_round. destruct (st_round (g_st (reset_all g))).
  all: try (apply RA; [intros j; cbn [set_event with_st]; apply H1|reflexivity]).
  destruct (Nat.eqb (movable_count (reset_all g)) 0) eqn:E; [intros _; apply RC; right; apply Nat.eqb_eq; exact E|].
  apply RA; [|reflexivity]. intros j. cbn [set_event with_st]. apply (unacted_find_bb_loop _ _ H1).
Qed.

(* ---------- the invariant under every operation ---------- *)
Lemma event_ph g e r : ph g = (e, r) -> st_event (g_st g) = e /\ st_round (g_st g) = r.
Proof. apply event_of_ph. Qed.

Lemma Tinv_do_ready g : Good g -> Tinv g -> snd (do_ready g) = Ok -> Tinv (fst (do_ready g)).
Proof.
  intros HG [TC TCl TN] Hok. pose proof HG as [HI HO HK P HR].
  pose proof (cv_do_ready g) as Hv. pose proof (fv_do_ready g) as Hf.
  constructor.
  - apply (Tcore_view g); assumption.
  - revert Hok. unfold do_ready. destruct (negb _); [discriminate|].
    destruct (st_round (g_st (reset_all g))).
    1: { destruct (0 <? _); cbn [fst snd]; [simpl; discriminate|]. intros Ok1 Ev'.
         destruct (ph_enter_preflop _ Ok1) as [H|H]; destruct (event_ph _ _ _ H) as [E1 _]; rewrite E1 in Ev'; discriminate. }
    all: cbn [fst snd]; intros _ Ev'; apply start_round_settled; exact Ev'.
  - intros Hcond j Hj. apply (nofold_view g _ Hf (nplayers_cv _ _ Hv)); [|exact Hj].
    apply TN. left.
    (* only a hand that has not been dealt yet leads to the ante or blinds request *)
    revert Hok Hcond. unfold do_ready. destruct (event_eqb (st_event (g_st g)) EvReadyRequested) eqn:Ee; [|discriminate]. cbn [negb].
    destruct (st_round (g_st (reset_all g))) eqn:Er; [intros _ _; exact Er| | | |].
    all: cbn [fst snd]; intros _ [Hc|Hc]; exfalso;
      destruct (ph_start_round (reset_all g)) as [H|H]; destruct (event_ph _ _ _ H) as [E1 E2];
      try (rewrite E2 in Hc; rewrite Er in Hc; discriminate); try (rewrite E1 in Hc; discriminate).
Qed.

Lemma Tinv_do_pay_ante g : Good g -> Tinv g -> snd (do_pay_ante g) = Ok -> Tinv (fst (do_pay_ante g)).
Proof.
  intros HG [[A B C] TCl TN] Hok. pose proof HG as [HI HO HK P HR].
  assert (He : st_event (g_st g) = EvAnteRequested).
  { revert Hok. unfold do_pay_ante. destruct (_ =? 0); [discriminate|]. destruct (event_eqb (st_event (g_st g)) EvAnteRequested) eqn:Ee; [|discriminate].
    intros _. destruct (st_event (g_st g)); try discriminate; reflexivity. }
  assert (Hr : st_round (g_st g) = RNone) by (pose proof (pi_legal g P) as L; unfold ph in L; rewrite He in L; exact L).
  destruct (pi_none g P Hr) as [W0 C0]. pose proof (pi_ante g P He) as Hante.
  pose proof (c0_seats g (inv_chips g HI)) as Hseats.
  destruct (pay_ante_result g He Hante (fun i Hi => conj (Hseats i Hi) (W0 i Hi))) as (Hn & Hcw & Hres).
  pose proof (fv_do_pay_ante g) as Hf. set (s' := fst (do_pay_ante g)) in *.
  pose proof (Good_step g OPayAnte HG) as HG'. cbn [step] in HG'. fold s' in HG'.
  pose proof (c0_seats s' (inv_chips s' (good_inv s' HG'))) as Hseats'.
  assert (Nof : forall j, (j < nplayers g)%nat -> foldf g j = false) by (apply TN; left; exact Hr).
  assert (Nof' : forall j, (j < nplayers s')%nat -> foldf s' j = false) by (apply (nofold_view g s' Hf Hn Nof)).
  constructor; [constructor| |].
  - intros a b Ha Hb Hl Hin. rewrite Hn in Ha, Hb. destruct (Hres a Ha) as (Pa & _ & _). destruct (Hres b Hb) as (Pb & Wb & Sb).
    destruct (Hseats' b ltac:(rewrite Hn; exact Hb)) as (_ & I2 & _). rewrite I2, Wb, Sb in Hin.
    destruct (Hseats b Hb) as (_ & J2 & J3 & _). rewrite (W0 b Hb) in J2.
    pose proof (A a b Ha Hb (Nof b Hb) ltac:(lia)). rewrite Pa, Pb. lia.
  - rewrite Hcw. lia.
  - intros a Ha Hfo. rewrite (Nof' a Ha) in Hfo. discriminate.
  - intros Ev'. exfalso. revert Hok Ev'. fold s'. unfold s', do_pay_ante. destruct (_ =? 0); [discriminate|]. destruct (negb _); [discriminate|].
    destruct (ante_loop (player_order g) g) as [g1 [|]]; [|discriminate]. intros Ok1 Ev'.
    destruct (ph_enter_preflop _ Ok1) as [H|H]; destruct (event_ph _ _ _ H) as [E1 _]; rewrite E1 in Ev'; discriminate.
  - intros _. exact Nof'.
Qed.

Lemma Tinv_do_pay_blinds g : Good g -> Tinv g -> snd (do_pay_blinds g) = Ok -> Tinv (fst (do_pay_blinds g)).
Proof.
  intros HG [[A B C] TCl TN] Hok. pose proof HG as [HI HO HK P HR].
  assert (He : st_event (g_st g) = EvBlindsRequested).
  { revert Hok. unfold do_pay_blinds. destruct (event_eqb (st_event (g_st g)) EvBlindsRequested) eqn:Ee; [|discriminate].
    intros _. destruct (st_event (g_st g)); try discriminate; reflexivity. }
  destruct (pi_blinds g P He) as [W0 C0]. pose proof (c0_seats g (inv_chips g HI)) as Hseats. pose proof (c0_meta g (inv_chips g HI)) as Hmeta.
  destruct (pay_blinds_result g He Hmeta C0 (fun i Hi => conj (Hseats i Hi) (W0 i Hi))) as (Hn & Hres & Hle & Hex & _).
  pose proof (fv_do_pay_blinds g) as Hf. set (s' := fst (do_pay_blinds g)) in *.
  pose proof (Good_step g OPayBlinds HG) as HG'. cbn [step] in HG'. fold s' in HG'.
  pose proof (c0_seats s' (inv_chips s' (good_inv s' HG'))) as Hseats'.
  assert (Nof : forall j, (j < nplayers g)%nat -> foldf g j = false) by (apply TN; right; exact He).
  assert (Nof' : forall j, (j < nplayers s')%nat -> foldf s' j = false) by (apply (nofold_view g s' Hf Hn Nof)).
  assert (Init : forall j, (j < nplayers g)%nat -> p_initial (get_p s' j) = p_initial (get_p g j)).
  { intros j Hj. destruct (Hres j Hj) as (Wj & Sj & _). destruct (Hseats' j ltac:(rewrite Hn; exact Hj)) as (_ & I2 & _).
    destruct (Hseats j Hj) as (_ & J2 & _). rewrite (W0 j Hj) in J2. lia. }
  constructor; [constructor| |].
  - intros a b Ha Hb Hl Hin. rewrite Hn in Ha, Hb. destruct (Hres a Ha) as (_ & _ & Pa). destruct (Hres b Hb) as (_ & _ & Pb).
    rewrite Pa, Pb. rewrite (Init b Hb) in Hin. apply A; try assumption. apply Nof. exact Hb.
  - intros Hpos. destruct Hex as [H|(i & Hi & H)]; [lia|]. exists i. rewrite Hn. split; [exact Hi|]. split; [apply Nof'; rewrite Hn; exact Hi|].
    destruct (Hres i Hi) as (Wi & _). rewrite Wi, H. reflexivity.
  - intros a Ha Hfo. rewrite (Nof' a Ha) in Hfo. discriminate.
  - intros Ev'. exfalso. revert Ev'. fold s'. unfold s', do_pay_blinds. rewrite He. cbn [event_eqb negb fst]. intros Ev'.
    match type of Ev' with context [prepare_round ?y] => destruct (ph_prepare_round y) as [H|[H H']] end.
    + destruct (event_ph _ _ _ H) as [E1 _]. rewrite E1 in Ev'. discriminate.
    + apply H'. transitivity (st_round (g_st g)); [|pose proof (pi_legal g P) as L; unfold ph in L; rewrite He in L; exact L].
      match goal with |- st_round (g_st (reset_all ?y)) = _ => transitivity (st_round (g_st (fold_left pay_blind (player_order g) g))); [reflexivity|] end.
      pose proof (ph_fold_pay_blind (player_order g) g) as Hp. destruct (event_ph _ _ _ Hp) as [_ E2]. exact E2.
  - intros [Hc|Hc]; exfalso; revert Hc; fold s'; unfold s', do_pay_blinds; rewrite He; cbn [event_eqb negb fst]; intros Hc;
      match type of Hc with context [prepare_round ?y] => destruct (ph_prepare_round y) as [H|[H _]]; destruct (event_ph _ _ _ H) as [E1 E2] end;
      try (rewrite E1 in Hc; discriminate).
    + rewrite E2 in Hc. pose proof (pi_legal g P) as L. unfold ph in L. rewrite He in L.
      assert (R : st_round (g_st g) = RNone); [|rewrite R in L; discriminate]. rewrite <- Hc.
      pose proof (ph_fold_pay_blind (player_order g) g) as Hp. destruct (event_ph _ _ _ Hp) as [_ E3]. symmetry. exact E3.
    + rewrite E2 in Hc. pose proof (pi_legal g P) as L. unfold ph in L. rewrite He in L.
      assert (R : st_round (g_st g) = RNone); [|rewrite R in L; discriminate]. rewrite <- Hc.
      pose proof (ph_fold_pay_blind (player_order g) g) as Hp. destruct (event_ph _ _ _ Hp) as [_ E3]. symmetry. exact E3.
Qed.

Lemma Tinv_do_next g : Good g -> Tinv g -> snd (do_next g) = Ok -> Tinv (fst (do_next g)).
Proof.
  intros HG [TC TCl TN] Hok. pose proof HG as [HI HO HK P HR].
  assert (He : st_event (g_st g) = EvRoundClosed).
  { revert Hok. unfold do_next. destruct (event_eqb (st_event (g_st g)) EvRoundClosed) eqn:Ee; [|discriminate].
    intros _. destruct (st_event (g_st g)); try discriminate; reflexivity. }
  assert (Hrn : st_round (g_st g) <> RNone) by (pose proof (pi_legal g P) as L; unfold ph in L; rewrite He in L; exact L).
  assert (Hc : Cinv g) by (apply Inv_Cinv; [exact HI|rewrite He; discriminate]).
  set (g0 := set_last g (-1) LNext 0). set (g1 := reset_all_status (reset_round_status g0)).
  pose proof (Tcore_collect g Hc TC (TCl He)) as T1. fold g0 g1 in T1.
  assert (Hn1 : nplayers g1 = nplayers g) by (unfold g1, reset_all_status; rewrite nplayers_map; reflexivity).
  (* after the collection nothing is in front of anybody *)
  assert (Zero : forall y, chips_view y = chips_view g1 -> gv p_fold y = gv p_fold g1 -> settled y).
  { intros y Hv Hf. right. right. intros j Hj _ _. rewrite (nplayers_cv _ _ Hv), Hn1 in Hj.
    destruct (view_get g1 y j Hv Hf ltac:(rewrite Hn1; exact Hj)) as [E _]. unfold chips_of in E. injection E as _ _ _ _ Ew.
    destruct (cv_parts _ _ Hv) as (_ & _ & _ & Hcw & _). rewrite Ew, Hcw. unfold g1, g0. rewrite get_p_collect by exact Hj. reflexivity. }
  assert (Fin : forall y, chips_view y = chips_view g1 -> gv p_fold y = gv p_fold g1 -> st_round (g_st y) <> RNone -> st_event (g_st y) <> EvBlindsRequested -> Tinv y).
  { intros y Hv Hf Hr Hev. constructor; [apply (Tcore_view g1); assumption|intros _; apply Zero; assumption|].
    intros [H|H]; contradiction. }
  unfold do_next in *. rewrite He in *. cbn [event_eqb negb] in *. fold g0 g1 in Hok |- *.
  set (guard := fun res : gstate * outcome => match res with (_, Panic) => (g, Panic) | x => x end) in *.
  assert (Hgc : snd (guard (game_completed g1)) = Ok -> Tinv (fst (guard (game_completed g1)))).
  { unfold guard. pose proof (ph_game_completed g1) as H. pose proof (cv_game_completed g1) as Hv. pose proof (gv_game_completed p_fold g1) as Hf.
    destruct (game_completed g1) as [g2 o2]. cbn [fst snd] in *. destruct o2; cbn [fst snd]; try discriminate. intros _.
    destruct (event_ph _ _ _ (H eq_refl)) as [E1 E2]. apply Fin; [exact Hv|exact Hf|rewrite E2; exact Hrn|rewrite E1; discriminate]. }
  assert (Hst : forall r, r <> RNone -> snd (guard (enter_street g1 r)) = Ok -> Tinv (fst (guard (enter_street g1 r)))).
  { intros r Hr. unfold guard. pose proof (ph_enter_street g1 r) as H. pose proof (cv_enter_street g1 r) as Hv.
    assert (Hf : gv p_fold (fst (enter_street g1 r)) = gv p_fold g1) by (apply gv_enter_street; fside).
    destruct (enter_street g1 r) as [g2 o2]. cbn [fst snd] in *. destruct o2; cbn [fst snd]; try discriminate. intros _.
    destruct (H eq_refl) as [H1|[H1 _]]; destruct (event_ph _ _ _ H1) as [E1 E2]; (apply Fin; [exact Hv|exact Hf|rewrite E2; exact Hr|rewrite E1; discriminate]). }
  revert Hok. change (st_round (g_st g0)) with (st_round (g_st g)).
  destruct (st_round (g_st g)); [contradiction| | | |].
  - destruct (Nat.eqb (alive_count g1) 1); [exact Hgc|apply Hst; discriminate].
  - destruct (Nat.eqb (alive_count g1) 1); [exact Hgc|apply Hst; discriminate].
  - destruct (Nat.eqb (alive_count g1) 1); [exact Hgc|apply Hst; discriminate].
  - destruct (Nat.eqb (alive_count g1) 1); exact Hgc.
Qed.

Lemma Tinv_act g who a x s' :
  Good g -> Lap g -> Tinv g -> step g (OAct who a x) = (s', Ok) -> Tinv s'.
Proof.
  intros HG HL [TC TCl TN] Hs. pose proof HG as [HI HO HK P HR].
  pose proof (Good_step g (OAct who a x) HG) as HG'. rewrite Hs in HG'. cbn [fst] in HG'.
  pose proof Hs as Hs0. cbn [step] in Hs. destruct (negb _); [discriminate|].
  match type of Hs with ?r = _ => change r with (act_of g (match who with Some i => i | None => st_cur (g_st g) end) a x) in * end.
  set (i := match who with Some i => i | None => st_cur (g_st g) end) in *.
  assert (Hok : snd (act_of g i a x) = Ok) by (rewrite Hs; reflexivity).
  destruct (act_summary_of g i a x HG Hok) as (Sum & Hi & Ev & _). rewrite Hs in Sum. cbn [fst] in Sum.
  assert (Hc : Cinv g) by (apply Inv_Cinv; [exact HI|rewrite Ev; discriminate]).
  (* the resulting event is "round started" or "round closed" *)
  assert (Hev : st_event (g_st s') = EvRoundStarted \/ st_event (g_st s') = EvRoundClosed).
  { destruct (act_mu g i a x HG Hok) as (g' & E & Ev' & _). rewrite Hs in E. cbn [fst] in E. rewrite E.
    destruct (ph_request_action g') as [H|H]; destruct (event_ph _ _ _ H) as [E1 _]; [left; congruence|right; exact E1]. }
  assert (Hc' : Cinv s') by (apply Inv_Cinv; [apply (good_inv s' HG')|destruct Hev as [H|H]; rewrite H; discriminate]).
  constructor.
  - apply (Tcore_action g s' i Hc (ci_le s' Hc') TC Sum Hi).
  - intros Ecl. destruct (closed_only_when_settled g who a x s' HG HL Hs0 Ecl) as (g' & -> & Hn' & Hd).
    destruct (counts_view g' (round_closed g') (cv_round_closed g') ltac:(apply gv_round_closed; fside)) as [C1 C2].
    unfold settled. rewrite C1, C2. destruct Hd as [H|[H|H]]; [now left|right; now left|right; right].
    intros j Hj Hl Hst. rewrite (nplayers_cv _ _ (cv_round_closed g')) in Hj. destruct (H j Hj) as [_ Hm].
    pose proof (matched_round_closed g' j Hj Hm) as Hm'. destruct Hm' as [F|[S|W]]; [rewrite F in Hl; discriminate|contradiction|exact W].
  - intros [Hr|Hb]; exfalso.
    + pose proof (sv_round _ _ (sv_act g i a x)) as R. fold (act_of g i a x) in R. rewrite Hs in R. cbn [fst] in R.
      pose proof (pi_legal g P) as L. unfold ph in L. rewrite Ev in L. rewrite R in Hr. contradiction.
    + destruct Hev as [H|H]; rewrite H in Hb; discriminate.
Qed.

Theorem Tinv_step g o : Good g -> Lap g -> Tinv g -> Tinv (fst (step g o)).
Proof.
  intros HG HL HT. destruct (outcome_ok_dec (snd (step g o))) as [Hok|Hno].
  2: { rewrite (refused_changes_nothing g o HG Hno). exact HT. }
  destruct o as [| | | |who a x].
  - apply Tinv_do_ready; assumption.
  - apply Tinv_do_pay_ante; assumption.
  - apply Tinv_do_pay_blinds; assumption.
  - apply Tinv_do_next; assumption.
  - destruct (step g (OAct who a x)) as [s' o'] eqn:Es. cbn [fst snd] in *. subst o'. apply (Tinv_act g who a x s' HG HL HT Es).
Qed.

Lemma Tinv_create c deck g : cfg_ok c -> create c deck = (g, Ok) -> Tinv g.
Proof.
  intros Hc Hcr. pose proof (Inv_create c deck g Hc Hcr) as HI. pose proof (Pinv_create c deck g Hcr) as P.
  assert (Hr : st_round (g_st g) = RNone /\ st_event (g_st g) = EvReadyRequested /\ (forall j, foldf g j = false) /\
               (forall j, p_pot (get_p g j) = 0)).
  { unfold create in Hcr.
    destruct (Nat.ltb _ 2); [discriminate|]. destruct (dealer_opt _); [|discriminate].
    destruct (existsb _ _); [discriminate|]. destruct (Nat.eqb _ 0); [discriminate|]. destruct (Nat.ltb _ _); [discriminate|].
    injection Hcr as <-. split; [reflexivity|]. split; [reflexivity|].
    clear HI P. split; intros j; unfold foldf, get_p, request_ready, reset_all, set_event, map_p, with_players, with_st, reset_round_status; cbn [g_players];
      revert j; generalize (c_players c) as l; induction l as [|[bk [[d sb] bb]] t IH]; intros [|j]; simpl; auto. }
  destruct Hr as (R & E & F & Pz). destruct (pi_none g P R) as [W0 C0].
  constructor; [constructor| |].
  - intros a b _ _ _ _. rewrite !Pz. lia.
  - rewrite C0. lia.
  - intros a _ Hf. rewrite F in Hf. discriminate.
  - rewrite E. discriminate.
  - intros _ j _. apply F.
Qed.

Theorem Tinv_reachable c deck g ops :
  cfg_ok c -> length deck = length (c_deck c) -> create c deck = (g, Ok) -> Tinv (run g ops).
Proof.
  intros Hc Hl Hcr.
  assert (H0 : Good g /\ Lap g /\ Tinv g).
  { split; [apply (Good_reachable c deck g [] Hc Hl Hcr)|]. split; [apply (Lap_reachable c deck g [] Hc Hl Hcr)|apply (Tinv_create c deck g Hc Hcr)]. }
  clear Hcr. revert g H0. unfold run. induction ops as [|o t IH]; intros g (HG & HL & HT); cbn [fold_left]; [exact HT|].
  apply IH. split; [apply Good_step; exact HG|]. split; [apply Lap_step; assumption|apply Tinv_step; assumption].
Qed.

(* a folded player never has more in the pot than every player still in the hand *)
Theorem folded_is_covered c deck g ops :
  cfg_ok c -> length deck = length (c_deck c) -> create c deck = (g, Ok) ->
  let s := run g ops in
  forall i, (i < nplayers s)%nat -> p_fold (get_p s i) = true ->
    exists k, (k < nplayers s)%nat /\ p_fold (get_p s k) = false /\
              p_pot (get_p s i) + p_wager (get_p s i) <= p_pot (get_p s k) + p_wager (get_p s k).
Proof.
  intros Hc Hl Hcr s i Hi Hf. destruct (Tinv_reachable c deck g ops Hc Hl Hcr) as [[_ _ C] _ _]. apply (C i Hi Hf).
Qed.

(* hence at the showdown he wins nothing and loses exactly what he put in — provided the players still in
   the hand carry positive scores, which is how power.go scores any hand of at least two cards *)
Theorem folded_player_wins_nothing c deck g ops :
  cfg_ok c -> length deck = length (c_deck c) -> create c deck = (g, Ok) ->
  let s := run g ops in
  forall r, g_result s = Some r ->
  (forall k, (k < nplayers s)%nat -> p_fold (get_p s k) = false -> 0 < score_of (get_p s k)) ->
  forall i, (i < nplayers s)%nat -> p_fold (get_p s i) = true ->
    chg (res_players r) (zn i) = - (p_pot (get_p s i) + p_wager (get_p s i)).
Proof.
  intros Hc Hl Hcr s r Hr Hpos i Hi Hf.
  destruct (closing_result c deck g ops Hc Hcr r Hr) as (_ & -> & _).
  pose proof (Inv_reachable c deck g ops Hc Hcr) as HI. fold s in HI.
  pose proof (player_vec_ok s (c0_seats s (inv_chips s HI))) as Hok.
  destruct (folded_is_covered c deck g ops Hc Hl Hcr i Hi Hf) as (k & Hk & K1 & K2). fold s in Hk, K1, K2.
  pose proof (player_vec_in (g_players s) i Hi) as Ini. pose proof (player_vec_in (g_players s) k Hk) as Ink.
  fold (get_p s i) in Ini. fold (get_p s k) in Ink. unfold vec_entry in Ini, Ink. cbn [fst snd] in Ini, Ink.
  rewrite Hf in Ini. assert (Hs0 : score_of (get_p s i) = 0) by (unfold score_of; rewrite Hf; reflexivity). rewrite Hs0 in Ini.
  rewrite K1 in Ink.
  apply (settle_vec_folded (player_vec (g_players s)) Hok (zn i) _ _ Ini).
  eexists _, _, _, _, _. split; [exact Ink|]. split; [exact K2|apply Hpos; assumption].
Qed.
