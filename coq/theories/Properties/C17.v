(* C17 — the button moves to the next player who can play, never skipping or stalling.
   sm_run n ops         : the seat manager of an n-seat table after any history of join / sit-in /
                          reserve / leave / next operations with any seat arguments
   playable             : occupied, active, not reserved;  pl s i : seat i of s is playable
   first_playable_after s d' : scanning clockwise from the seat after the previous dealer (from seat 0
                          when there is no dealer yet), d' is playable and every seat scanned before it is not *)
From Coq Require Import Lia.
From PF Require Import Base ModelSeat ProofsSeatBasic ProofsSeat.

(* when at least two players were able to play, the move succeeds and the button goes to the first of
   them clockwise from the previous dealer — for every table size and every history *)
Theorem C17_button_moves_to_first_playable :
  forall n ops, let s := sm_run n ops in
    (2 <= playable_count s)%nat ->
    exists s' d', sm_next s = (s', SOk) /\ sm_dealer s' = Some d' /\ first_playable_after s d'.
Proof. intros n ops s H. apply sm_next_moves_button; [exact H|apply sm_run_dealer_ok]. Qed.
Print Assumptions C17_button_moves_to_first_playable.

(* the same for any state whose dealer is a seat of the table *)
Theorem C17_button_any_state :
  forall s, (2 <= playable_count s)%nat -> (forall d, sm_dealer s = Some d -> (d < sm_max s)%nat) ->
    exists s' d', sm_next s = (s', SOk) /\ sm_dealer s' = Some d' /\ first_playable_after s d'.
Proof. exact sm_next_moves_button. Qed.
Print Assumptions C17_button_any_state.

Theorem C17_scan_finds_first_playable :
  forall s idxs start d pos,
    find_active s idxs start = Some (d, pos) ->
    (start <= pos)%nat /\ nth_error idxs (pos - start) = Some d /\ playable (get_seat s d) = true /\
    (forall k, (k < pos - start)%nat -> forall i, nth_error idxs k = Some i -> playable (get_seat s i) = false).
Proof. exact find_active_spec. Qed.
Print Assumptions C17_scan_finds_first_playable.

(* non-vacuity: three seats, two players sat in *)
Example C17_example :
  let s := sm_run 3 [OJoin 0 0; OSeat 0; OJoin 2 0; OSeat 2] in
  (2 <= playable_count s)%nat /\ fst (sm_next s) <> s.
Proof. split; [vm_compute; lia|vm_compute; discriminate]. Qed.

(* if, even after the waiting players have been let in (that is what nextDealer does first), fewer than two
   players can play, the move is refused with the insufficient-players error; otherwise it succeeds *)
Theorem C17_refused_exactly_when_fewer_than_two_can_play :
  forall s,
    (snd (next_dealer s) = None \/ (playable_count (fst (next_dealer s)) < 2)%nat -> snd (sm_next s) = SErrInsufficient) /\
    (snd (next_dealer s) <> None -> (2 <= playable_count (fst (next_dealer s)))%nat -> snd (sm_next s) = SOk).
Proof.
  intros s. pose proof (sm_next_never_panics s) as Hnp. unfold sm_next in *.
  destruct (next_dealer s) as [s1 [d|]] eqn:E; cbn [fst snd] in *.
  - destruct (Nat.ltb (playable_count s1) 2) eqn:El.
    + apply Nat.ltb_lt in El. split; [reflexivity|intros _ H; lia].
    + apply Nat.ltb_ge in El. split; [intros [H|H]; [discriminate|lia]|].
      intros _ _. destruct (renew s1 d); [reflexivity|exfalso; apply Hnp; reflexivity].
  - split; [reflexivity|intros H; contradiction].
Qed.
Print Assumptions C17_refused_exactly_when_fewer_than_two_can_play.
