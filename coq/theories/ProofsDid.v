(* ProofsDid.v — what a seat has done is something it had been offered (C04): after every accepted action other
   than pass, the action recorded for the acting seat (did_action) was in its offer before.  A bet or raise
   request may end as an all-in, a raise request to the level of the wager to match as a call: each only when
   that action was on offer. *)
From Coq Require Import Lia.
From PF Require Import Base ProofsBase Comb ModelPot ModelSettle ModelEval ModelGame
                       ProofsGameBasic ProofsChips ProofsInv ProofsPos ProofsOffers ProofsView.

Definition action_of_did (d : did) : option action :=
  match d with
  | DNone => None | DFold => Some AFold | DAllin => Some AAllin | DCall => Some ACall
  | DCheck => Some ACheck | DBet => Some ABet | DRaise => Some ARaise
  end.

Ltac did_side := intros; reflexivity.

Lemma did_of_gv g g' i : gv p_did g' = gv p_did g -> p_did (get_p g' i) = p_did (get_p g i).
Proof. unfold gv, get_p. intros H. rewrite <- !(map_nth p_did). now rewrite H. Qed.

(* pay leaves the recorded action alone or turns it into all-in *)
Lemma did_pay g i chips w : (i < nplayers g)%nat ->
  p_did (get_p (pay g i chips w) i) = DAllin \/ p_did (get_p (pay g i chips w) i) = p_did (get_p g i).
Proof.
  intros Hi. unfold pay. destruct (p_stack (get_p g i) <=? chips).
  - left.
    match goal with |- context [upd_p ?g1 i ?f] => set (g2 := upd_p g1 i f) end.
    assert (H2 : p_did (get_p g2 i) = DAllin).
    { unfold g2. rewrite get_p_upd_same by exact Hi. reflexivity. }
    destruct w; [|exact H2].
    match goal with |- context [if ?c then become_raiser ?x i else reset_acted ?x] => set (g3 := x); set (cc := c) end.
    assert (H3 : p_did (get_p g3 i) = DAllin).
    { unfold g3. match goal with |- context [if ?d then with_st _ _ else _] => destruct d end; exact H2. }
    destruct cc.
    + rewrite (did_of_gv g3); [exact H3|]. apply gv_become_raiser; did_side.
    + rewrite (did_of_gv g3); [exact H3|]. apply gv_reset_acted; did_side.
  - right.
    match goal with |- context [upd_p g i ?f] => set (g1 := upd_p g i f) end.
    assert (H1 : p_did (get_p g1 i) = p_did (get_p g i)).
    { unfold g1. rewrite get_p_upd_same by exact Hi. reflexivity. }
    destruct (w && _); [|exact H1].
    transitivity (p_did (get_p g1 i)); [|exact H1]. apply did_of_gv.
    rewrite (gv_become_raiser p_did) by did_side. reflexivity.
Qed.

Lemma did_resume_last g i a t v : p_did (get_p (resume (set_last g a t v)) i) = p_did (get_p g i).
Proof. apply did_of_gv. rewrite (gv_resume p_did) by did_side. reflexivity. Qed.

(* an offer that holds anything but pass also holds all-in *)
Lemma allin_offered g i a : Inv g -> Oinv g -> a <> APass -> allowed g i a = true -> allowed g i AAllin = true.
Proof.
  intros HI HO Ha H. unfold allowed in *.
  destruct (Nat.eq_dec i (st_cur (g_st g))) as [->|Hne].
  2: { rewrite (oi_only g HO i Hne) in H. discriminate. }
  destruct (event_eqb (st_event (g_st g)) EvRoundStarted) eqn:Ee.
  2: { assert (Hno : no_offers g).
       { apply (inv_offers g HI). intros E. rewrite E in Ee. discriminate. }
       rewrite (Hno (st_cur (g_st g))) in H. discriminate. }
  assert (Eev : st_event (g_st g) = EvRoundStarted) by (destruct (st_event (g_st g)); try discriminate; reflexivity).
  destruct (oi_cur g HO Eev) as [_ Hoff]. rewrite Hoff in *.
  unfold available_actions in *. destruct (p_fold _); [|destruct (p_stack _ =? 0)].
  - destruct a; try discriminate H. exfalso. apply Ha. reflexivity.
  - destruct a; try discriminate H. exfalso. apply Ha. reflexivity.
  - reflexivity.
Qed.

Lemma no_pay_offered g i : Inv g -> Oinv g -> allowed g i APay = false.
Proof.
  intros HI HO. unfold allowed.
  destruct (Nat.eq_dec i (st_cur (g_st g))) as [->|Hne]; [|rewrite (oi_only g HO i Hne); reflexivity].
  destruct (event_eqb (st_event (g_st g)) EvRoundStarted) eqn:Ee.
  - assert (Eev : st_event (g_st g) = EvRoundStarted) by (destruct (st_event (g_st g)); try discriminate; reflexivity).
    destruct (oi_cur g HO Eev) as [_ Hoff]. rewrite Hoff. apply available_no_pay.
  - assert (Hno : no_offers g) by (apply (inv_offers g HI); intros E; rewrite E in Ee; discriminate).
    rewrite (Hno (st_cur (g_st g))). reflexivity.
Qed.

Definition do_act (g : gstate) (i : nat) (a : action) (x : Z) : gstate * outcome :=
  match a with
  | APass => act_pass g i | AFold => act_fold g i | ACheck => act_check g i | ACall => act_call g i
  | AAllin => act_allin g i | ABet => act_bet g i x | ARaise => act_raise g i x | APay => act_pay g i x
  end.

(* the recorded action after an accepted call: call or all-in; after an accepted all-in: all-in *)
Lemma did_call g i : (i < nplayers g)%nat -> snd (act_call g i) = Ok ->
  allowed g i ACall = true /\
  (p_did (get_p (fst (act_call g i)) i) = DAllin \/ p_did (get_p (fst (act_call g i)) i) = DCall).
Proof.
  intros Hi. unfold act_call. destruct (allowed g i ACall) eqn:E; cbn [negb]; [|intros H; discriminate H].
  intros _. split; [reflexivity|]. cbn [fst]. rewrite did_resume_last.
  match goal with |- context [pay ?g1 i ?d true] => destruct (did_pay g1 i d true) as [H|H]; [rewrite nplayers_upd; exact Hi|left; exact H|right; rewrite H] end.
  rewrite get_p_upd_same by exact Hi. reflexivity.
Qed.

Lemma nplayers_with_st g s : nplayers (with_st g s) = nplayers g.
Proof. reflexivity. Qed.

Lemma did_allin g i : (i < nplayers g)%nat -> snd (act_allin g i) = Ok ->
  allowed g i AAllin = true /\ p_did (get_p (fst (act_allin g i)) i) = DAllin.
Proof.
  intros Hi. unfold act_allin. destruct (allowed g i AAllin) eqn:E; cbn [negb]; [|intros H; discriminate H].
  intros _. split; [reflexivity|]. cbn [fst]. rewrite did_resume_last.
  set (g1 := upd_p g i (fun p => p_set_acted (p_set_did p DAllin) true)).
  assert (H1 : p_did (get_p g1 i) = DAllin) by (unfold g1; rewrite get_p_upd_same by exact Hi; reflexivity).
  assert (N1 : nplayers g1 = nplayers g) by (unfold g1; apply nplayers_upd).
  match goal with |- context [pay ?x i ?d true] => set (g2 := x); set (dd := d) end.
  assert (H2 : p_did (get_p g2 i) = DAllin) by (unfold g2; destruct (_ <=? _); exact H1).
  assert (N2 : (i < nplayers g2)%nat) by (unfold g2; destruct (_ <=? _); rewrite ?nplayers_with_st, N1; exact Hi).
  destruct (did_pay g2 i dd true N2) as [H|H]; [exact H|rewrite H; exact H2].
Qed.

Theorem did_was_offered g i a x :
  Inv g -> Oinv g -> (i < nplayers g)%nat -> a <> APass -> snd (do_act g i a x) = Ok ->
  forall b, action_of_did (p_did (get_p (fst (do_act g i a x)) i)) = Some b -> allowed g i b = true.
Proof.
  intros HI HO Hi Ha Hok b Hb.
  (* it suffices that the recorded action is all-in, or an action whose offer was checked *)
  assert (K : forall a0, a0 <> APass -> allowed g i a0 = true ->
              forall d, p_did (get_p (fst (do_act g i a x)) i) = d ->
              (d = DAllin \/ action_of_did d = Some a0) -> allowed g i b = true).
  { intros a0 Ha0 Hal d Hd [->| Hd2].
    - rewrite Hd in Hb. injection Hb as <-. apply (allin_offered g i a0 HI HO Ha0 Hal).
    - rewrite Hd, Hd2 in Hb. injection Hb as <-. exact Hal. }
  destruct a; cbn [do_act] in *.
  - exfalso. apply Ha. reflexivity.
  - (* fold *)
    unfold act_fold in *. destruct (allowed g i AFold) eqn:E; cbn [negb] in *; [|discriminate Hok].
    apply (K AFold ltac:(discriminate) E _ eq_refl). right. cbn [fst]. rewrite did_resume_last, get_p_upd_same by exact Hi. reflexivity.
  - (* check *)
    unfold act_check in *. destruct (allowed g i ACheck) eqn:E; cbn [negb] in *; [|discriminate Hok].
    apply (K ACheck ltac:(discriminate) E _ eq_refl). right. cbn [fst]. rewrite did_resume_last, get_p_upd_same by exact Hi. reflexivity.
  - (* call *)
    destruct (did_call g i Hi Hok) as [E [H|H]]; apply (K ACall ltac:(discriminate) E _ eq_refl); [left|right]; rewrite H; reflexivity.
  - (* all-in *)
    destruct (did_allin g i Hi Hok) as [E H]. apply (K AAllin ltac:(discriminate) E _ eq_refl). left. exact H.
  - (* bet *)
    unfold act_bet in *. destruct (allowed g i ABet) eqn:E; cbn [negb] in *; [|discriminate Hok].
    destruct (x <=? 0); [discriminate Hok|].
    destruct (p_stack (get_p g i) <=? x).
    + destruct (did_allin g i Hi Hok) as [E2 H]. apply (K AAllin ltac:(discriminate) E2 _ eq_refl). left. exact H.
    + apply (K ABet ltac:(discriminate) E _ eq_refl). cbn [fst]. rewrite did_resume_last.
      assert (Hd : forall g0, p_did (get_p (with_st g0 (st_set_prs (g_st g0) x)) i) = p_did (get_p g0 i)) by reflexivity.
      rewrite Hd.
      match goal with |- context [pay ?g1 i x true] => destruct (did_pay g1 i x true) as [H|H]; [rewrite nplayers_upd; exact Hi|left; exact H|right; rewrite H] end.
      rewrite get_p_upd_same by exact Hi. reflexivity.
  - (* raise *)
    unfold act_raise in *. destruct (allowed g i ARaise) eqn:E; cbn [negb] in *; [|discriminate Hok].
    destruct ((x =? 0) || (x <? st_cw (g_st g))); [discriminate Hok|].
    destruct (x =? st_cw (g_st g)).
    + destruct (did_call g i Hi Hok) as [E2 [H|H]]; apply (K ACall ltac:(discriminate) E2 _ eq_refl); [left|right]; rewrite H; reflexivity.
    + destruct ((p_initial (get_p g i) <=? x) || (x - st_cw (g_st g) <? st_prs (g_st g))).
      * destruct (did_allin g i Hi Hok) as [E2 H]. apply (K AAllin ltac:(discriminate) E2 _ eq_refl). left. exact H.
      * apply (K ARaise ltac:(discriminate) E _ eq_refl). cbn [fst]. rewrite did_resume_last.
        match goal with |- context [pay ?g2 i ?d true] => destruct (did_pay g2 i d true) as [H|H];
          [rewrite nplayers_with_st, nplayers_upd; exact Hi|left; exact H|right; rewrite H] end.
        change (action_of_did (p_did (get_p (upd_p g i (fun p => p_set_acted (p_set_did p DRaise) true)) i)) = Some ARaise).
        rewrite get_p_upd_same by exact Hi. reflexivity.
  - (* pay is never on offer *)
    unfold act_pay in Hok. rewrite (no_pay_offered g i HI HO) in Hok. cbn [negb] in Hok. discriminate Hok.
Qed.
