(* C03 — five-card hand ranking is the poker order.
   hand52 h      : five distinct cards, suits among the four suit symbols, ranks 2..14 (in any order)
   class_of h    : (ranks sorted descending, all suits equal)
   spec_cat      : the category by the rules of poker (multiplicities, five consecutive ranks or A-5-4-3-2)
   spec_key pr c : category position in the variant's ranking table, then the tie-break vector
                   (ranks by multiplicity then rank; straights by top card, the wheel five-high)
   Both are defined in SpecPoker.v independently of the model of CalculatePower. *)
From PF Require Import Base Comb ModelEval SpecPoker ProofsEval.
From PF.Gen Require Import Consts.

(* the evaluator gives the higher score to the hand that wins under the rules of poker and equal
   scores exactly to hands that tie — for every pair of hands, under both shipped ranking tables *)
Theorem C03_order :
  forall pr h1 h2, shipped pr -> hand52 h1 -> hand52 h2 ->
    (ps_score (calc_power pr h1) ?= ps_score (calc_power pr h2))
    = (spec_key pr (class_of h1) ?= spec_key pr (class_of h2)).
Proof. exact order_theorem. Qed.
Print Assumptions C03_order.

(* ... and names the category correctly *)
Theorem C03_category :
  forall pr h, shipped pr -> hand52 h ->
    ps_comb (calc_power pr h) = spec_cat (fst (class_of h)) (snd (class_of h)).
Proof. exact category_theorem. Qed.
Print Assumptions C03_category.

(* the generated tables are the ones of the two variants: flush above full house in short deck *)
Theorem C03_variant_tables :
  index_of power_standard Flush 0 < index_of power_standard FullHouse 0 /\
  index_of power_shortdeck FullHouse 0 < index_of power_shortdeck Flush 0 /\
  (forall c, 0 <= index_of power_standard c 0 <= 8 /\ 0 <= index_of power_shortdeck c 0 <= 8).
Proof. split; [reflexivity|split; [reflexivity|]]. intros c. destruct c; vm_compute; intuition discriminate. Qed.
Print Assumptions C03_variant_tables.

(* the rank symbols map to the ranks the specification speaks about *)
Theorem C03_card_rank_table :
  card_rank_table = [(50, 2); (51, 3); (52, 4); (53, 5); (54, 6); (55, 7); (56, 8); (57, 9);
                     (65, 14); (74, 11); (75, 13); (81, 12); (84, 10)].
Proof. reflexivity. Qed.
Print Assumptions C03_card_rank_table.

(* non-vacuity and a reading aid: concrete hands (S=83 H=72 D=68 C=67) *)
Example C03_example_hands :
  let sf := [(83, 14); (83, 13); (83, 12); (83, 11); (83, 10)] in       (* royal flush *)
  let wheel := [(83, 14); (72, 2); (68, 3); (67, 4); (83, 5)] in         (* A-2-3-4-5 *)
  let six_high := [(83, 2); (72, 3); (68, 4); (67, 5); (83, 6)] in       (* 2-3-4-5-6 *)
  let fh := [(83, 9); (72, 9); (68, 9); (67, 4); (83, 4)] in             (* nines full of fours *)
  let fl := [(72, 2); (72, 9); (72, 11); (72, 4); (72, 7)] in            (* jack-high flush *)
  hand52 sf /\ hand52 wheel /\ hand52 fh /\ hand52 fl /\
  spec_key power_standard (class_of wheel) < spec_key power_standard (class_of six_high) /\
  spec_key power_standard (class_of fl) < spec_key power_standard (class_of fh) /\
  spec_key power_shortdeck (class_of fh) < spec_key power_shortdeck (class_of fl) /\
  spec_key power_standard (class_of fh) < spec_key power_standard (class_of sf).
Proof.
  assert (H52 : forall h, length h = 5%nat ->
            (forallb (fun c => zmem (c_suit c) card_suits && (2 <=? c_rank c) && (c_rank c <=? 14)) h = true) ->
            NoDup h -> hand52 h).
  { intros h Hl Hv Hn. split; [exact Hl|split; [exact Hn|]].
    apply Forall_forall. intros c Hc. rewrite forallb_forall in Hv. specialize (Hv c Hc).
    apply andb_prop in Hv as [Hv H3]. apply andb_prop in Hv as [H1 H2].
    split; [apply ProofsEval.zmem_In; exact H1|]. apply Z.leb_le in H2. apply Z.leb_le in H3. auto. }
  cbv zeta.
  repeat split; try (vm_compute; reflexivity);
    (apply H52; [reflexivity|vm_compute; reflexivity|
       repeat constructor; simpl; intuition congruence]).
Qed.
